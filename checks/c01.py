"""C01 -- a full load returns every leaf cell exactly once with true geometry,
values and units.

Engine W, fault-free world search: a simulated RAMSES cluster (stub writer,
sim/ramses.py) dumps a snapshot of a seeded octree to tmpfs; the real
osyris.io reads it through the fs seam (trace, shuffled directory listing);
the result is compared with the writer's ground truth.
"""
import importlib
import warnings

import numpy as np

from sim import core
from sim.core import HarnessError
from sim.fsseam import FsSeam
from sim.ramses import code_factor, physical
from sim.preds import gen_level_pred, level_func
from sim.wcheck import Disk, compare_full, gen_world_params

PROPERTY = "C01"
ENGINE = "W"
DEFAULT_SEED = 101
RUNS = {"quick": 2500, "thorough": 150000}
JOBS = {"quick": 8, "thorough": 16}
SEARCH_SPACE = "states of the two-party world: octree x domain decomposition x ghost/boundary population x header sizes x variable lists x units x directory contents and listing order (no faults)"
RULE = ("one run = one world (ndim 1-3, ncpu 1-8, levelmin..levelmax, nboundary 0-3, ghost fraction, noutput, 8/16-byte keys, hydro/grav/rt lists, "
        "unit_d/l/t over 60 decades, boxlen, nout explicit or -1 with sibling snapshot directories and a shuffled listing) written by the stub ranks and "
        "loaded once; distinct = hash of the world parameters; non-trivial = >= 2 levels and (>= 2 ranks with ghost octs present, or boundary octs present)")
ASSUMPTIONS = [
    "the writer encodes the RAMSES output format from the Fortran sources as known to the author; it shares no code with osyris' readers",
    "RAMSES 'bisection' ordering and single-variable descriptors are outside the stated quantifier and not generated",
    "info-file numbers are written with 15 significant digits (E23.15) like RAMSES; unit factors are drawn with 6 digits so that they survive exactly",
    "cell mass follows the shipped configuration: density * dx**3 for every ndim",
]
REAL_STUB = {
    "real": ["osyris.RamsesDataset / Loader / all readers (amr, hydro, grav, rt, part, sink)", "osyris.io.utils", "unit library, config (fresh HOME)", "Datagroup/Array/Vector"],
    "stub": ["the ncpu RAMSES ranks that wrote the snapshot (sim/ramses.py)", "directory-listing order (glob shim)"],
}


def prepare(tier):
    warnings.filterwarnings("ignore")
    importlib.import_module("osyris")


def generate(rng, tier):
    p = gen_world_params(rng, tier)
    if rng.random() < 0.03:
        # a zoom simulation: a chain of refinements down to level 26-30 onto a generic point (oct centres need more than
        # 24 significant bits there)
        nd = rng.choice([1, 1, 2])
        p.update(ndim=nd, levelmin=rng.choice([1, 2]), levelmax=rng.choice([26, 28, 30]) if nd == 1 else 26, refine_p=0.05, maxcells=300,
                 nboundary=0, ordering=rng.choice(["planar", "angular"]), bound_frac=None, bound_keys=None,
                 chain=[round(rng.uniform(0.05, 0.95), 6) + 1.0 / 3e7 for _ in range(nd)], part=None, prune=[])
        if rng.random() < 0.5:
            p["ncpu"] = rng.choice([12, 16, 24, 30])  # two-digit rank numbers next to two-digit level numbers
    elif rng.random() < 0.004:
        # a production-size decomposition: several hundred ranks (rank numbers beyond 256)
        nd = rng.choice([2, 3])
        p.update(ndim=nd, ncpu=rng.choice([258, 300, 300, 513]), ordering=rng.choice(["planar", "angular"]) if nd == 2 else rng.choice(["hilbert", "planar"]),
                 bound_frac=None, bound_keys=None, levelmin=rng.choice([2, 3]), levelmax=rng.choice([4, 5]) if nd == 2 else 4, maxcells=1500, nboundary=0,
                 ghost_p=rng.choice([0.0, 0.05]), part=None, sink=None, prune=[])
        if p["ordering"] == "hilbert":
            p["bound_frac"] = sorted(rng.random() for _ in range(p["ncpu"] - 1))
    case = {"world": p, "nout_arg": rng.choice(["explicit", "explicit", "minus1"]), "glob_seed": rng.getrandbits(32), "prior": None,
            "later": rng.choice([None] * 8 + ["full", "capped"])}
    if case["nout_arg"] == "minus1" and rng.random() < 0.3:
        # the simulation goes on: a newer output appears in the same directory and "the last output" is asked for again
        case["newer"] = rng.choice([1, 2, 10])
    # the full load must not depend on what the dataset object was used for before (C15's concern, exercised here too)
    if rng.random() < 0.2:
        k = rng.choice(["level", "groups", "vars"])
        if k == "level":
            case["prior"] = {"level": gen_level_pred(rng, p["levelmin"], p["levelmax"])}
        elif k == "groups":
            case["prior"] = {"groups": rng.choice([["part"], ["sink"], ["mesh"], ["part", "sink"]])}
        else:
            case["prior"] = {"vars": rng.sample(["level", "dx", "density"] if "density" in p["hydro_vars"] else ["level", "dx"], 2)}
    return case


def describe(case):
    return case


def execute(case, stats):
    from pint.errors import DimensionalityError

    viol = []
    res = {"violations": viol, "nontrivial": False}
    p = dict(case["world"])
    if case["nout_arg"] == "minus1":
        # -1 means "the last output": sibling directories must have lower numbers
        p["siblings"] = [s for s in p["siblings"] if s < p["nout"]]
    else:
        p["siblings"] = list(p["siblings"])

    def V(cls, clause, detail):
        viol.append({"class": cls, "clause": clause, "key": {"class": cls, "clause": clause}, "detail": detail})

    with Disk(p) as disk:
        w = disk.world
        seam = FsSeam(glob_rng=core.rng_for(case["glob_seed"], "glob"))
        nout = -1 if case["nout_arg"] == "minus1" else p["nout"]
        try:
            ds = None
            pr = case.get("prior")
            if pr:
                stats.inc("probe.full_load_after_an_earlier_load_on_the_same_dataset")
                if "level" in pr:
                    sel = {"mesh": {"level": level_func(pr["level"])}}
                elif "groups" in pr:
                    sel = list(pr["groups"])
                else:
                    sel = {"mesh": list(pr["vars"])}
                try:
                    ds, _ = disk.load(seam=FsSeam(), nout=nout, select=sel)
                except Exception:
                    ds = None  # the prior call itself is not the subject here
            ds, out = disk.load(ds=ds, seam=seam, nout=nout)
        except Exception as e:
            import traceback

            V("load-exception", "full-load", {"error": core.scrub(f"{type(e).__name__}: {e}")[:300], "tb": core.scrub(traceback.format_exc())[-500:]})
            return res
        stats.inc("steps.files_opened", len(seam.trace))
        nl = len({c["level"] for c in w.leaves()})
        nghost = sum(1 for cpu in range(1, w.ncpu + 1) for (l, dom), octs in w.file_grids(cpu).items() if dom != cpu and dom <= w.ncpu and octs)
        res["nontrivial"] = bool(nl >= 2 and ((w.ncpu >= 2 and nghost > 0) or w.nb > 0))
        if nghost:
            stats.inc("probe.world_with_ghost_octs")
        if w.nb:
            stats.inc("probe.world_with_boundary_octs")
        if p["key_quad"]:
            stats.inc("probe.quad_precision_bound_keys")
        if case["nout_arg"] == "minus1":
            stats.inc("probe.nout_minus1" + ("_with_siblings" if p["siblings"] else ""))
        stats.inc(f"swarm.ndim={w.ndim}")
        stats.inc(f"swarm.ordering={'hilbert' if w.hilbert else 'other'}")
        stats.add("world_shapes", (w.ndim, w.ncpu, w.levelmin, w.levelmax, w.nb, len(w.hydro_vars), bool(w.grav_vars), bool(w.rt_vars)))
        if case.get("later"):
            # the loaded dataset is looked at only after another dataset object has loaded the same output (with a level cap,
            # i.e. other buffer sizes): what a load returned must not change afterwards
            try:
                disk.load(select={"mesh": {"level": lambda l: l <= max(1, w.levelmax - 1)}}) if case["later"] == "capped" else disk.load()
            except Exception:
                pass
            stats.inc("probe.dataset_judged_after_a_later_load_by_another_dataset")
        for cls, clause, detail in compare_full(ds, w):
            V(cls, clause, detail)
        if not viol:
            nrows = len(ds["mesh"]["level"])
            if ds.meta.get("ncells") != nrows:
                V("meta", "ncells", {"meta": int(ds.meta.get("ncells", -1)), "rows": nrows})
            t = ds.meta.get("time")
            try:
                tobs = t.to("s").magnitude if hasattr(t, "magnitude") else physical(t.values, t.unit, "time")
                if not np.isclose(float(tobs), p["time"] * w.unit_t, rtol=1e-12, atol=0):
                    V("meta", "time", {"got": float(tobs), "want": p["time"] * w.unit_t})
            except (DimensionalityError, AttributeError):
                V("meta", "time", {"repr": repr(t)[:100]})
            if case["nout_arg"] == "minus1" and not ds.meta["infile"].endswith("output_" + str(p["nout"]).zfill(5)):
                V("meta", "nout-minus-one", {"infile": ds.meta["infile"]})
        if case.get("newer") and case["nout_arg"] == "minus1" and not viol:
            from sim.ramses import World

            stats.inc("probe.last_output_asked_for_again_after_a_newer_one_appeared")
            p2 = dict(p, nout=p["nout"] + case["newer"], wseed=p["wseed"] + 1, siblings=[], time=p["time"] * 1.5)
            w2 = World(p2)
            w2.write(disk.dir)
            try:
                ds2, _ = disk.load(nout=-1)
            except Exception as e:
                V("load-exception", "full-load@newer-output", {"error": core.scrub(f"{type(e).__name__}: {e}")[:300]})
                ds2 = None
            if ds2 is not None:
                if not ds2.meta["infile"].endswith("output_" + str(p2["nout"]).zfill(5)):
                    V("meta", "nout-minus-one@newer-output", {"infile": core.scrub(ds2.meta["infile"])[-40:], "want": p2["nout"]})
                else:
                    for cls, clause, detail in compare_full(ds2, w2):
                        V(cls, clause + "@newer-output", detail)
    res["signature"] = core.digest(p)[:20]
    return res


# --------------------------------------------------------------------------


def measure(case):
    p = case["world"]
    return (p["ncpu"], p["levelmax"], p["ndim"], len(p["hydro_vars"]), int(bool(p["grav"])), int(bool(p["rt_vars"])), p["nboundary"],
            p["maxcells"], int(p["ghost_p"] * 10), int(p["part"] is not None) + int(p["sink"] is not None), len(p["siblings"]),
            int(case["nout_arg"] == "minus1"), int(p["units"] != [1.0, 1.0, 1.0]), p["noutput"], int(p["key_quad"]), int(bool(case.get("prior"))) + int(bool(case.get("later"))))


def world_reductions(p):
    """Smaller worlds: fewer ranks, fewer levels, fewer cells, fewer variables, no ghosts/boundaries/extras."""
    if p["ncpu"] > 1:
        for n in (1, 2, p["ncpu"] - 1):
            if n < p["ncpu"]:
                q = dict(p, ncpu=n)
                if q.get("bound_frac"):
                    q["bound_frac"] = q["bound_frac"][: n - 1]
                if q.get("part"):
                    q["part"] = dict(q["part"], counts=q["part"]["counts"][:n])
                yield q
    if p["levelmax"] > p["levelmin"]:
        yield dict(p, levelmax=p["levelmax"] - 1)
    if p["levelmin"] > 1:
        yield dict(p, levelmin=p["levelmin"] - 1, levelmax=max(p["levelmin"] - 1, p["levelmax"] - 1))
    for mc in (50, 200, p["maxcells"] // 2):
        if mc < p["maxcells"]:
            yield dict(p, maxcells=mc)
    if p["refine_p"] > 0.1:
        yield dict(p, refine_p=0.1)
    if len(p["hydro_vars"]) > 2:
        yield dict(p, hydro_vars=["density", "pressure"])
        yield dict(p, hydro_vars=p["hydro_vars"][:-1])
    if p["grav"]:
        yield dict(p, grav=False)
    if p["rt_vars"]:
        yield dict(p, rt_vars=None)
    if p["nboundary"]:
        yield dict(p, nboundary=0)
    if p["ghost_p"] > 0:
        yield dict(p, ghost_p=0.0)
    if p["part"] is not None:
        yield dict(p, part=None)
    if p["sink"] is not None:
        yield dict(p, sink=None)
    if p["siblings"]:
        yield dict(p, siblings=[])
    if p["units"] != [1.0, 1.0, 1.0]:
        yield dict(p, units=[1.0, 1.0, 1.0])
    if p["noutput"] > 1:
        yield dict(p, noutput=1)
    if p["key_quad"]:
        yield dict(p, key_quad=False)
    if p["ndim"] > 1 and p["ordering"] != "hilbert":
        yield dict(p, ndim=p["ndim"] - 1, levelmax=min(p["levelmax"], 4))


def reductions(case, viol):
    for q in world_reductions(case["world"]):
        yield dict(case, world=q)
    if case["nout_arg"] == "minus1":
        yield dict(case, nout_arg="explicit")
    if case.get("prior"):
        yield dict(case, prior=None)
    if case.get("later"):
        yield dict(case, later=None)
    if case.get("newer"):
        yield {k: v for k, v in case.items() if k != "newer"}
