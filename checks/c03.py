"""C03 -- a map pixel shows the value of the loaded cell containing its sample point.

Engine K: the real `osyris.map` front-end (pre-selection, basis, grid, masking,
vector packing) runs with the `evaluate_on_grid` kernel replaced (seam S1) by
its own source under the simulated parallel runtime.  Oracle: independent
point location of every returned pixel centre in the original axes.
"""
import importlib
import warnings

import numpy as np

from sim import core
from sim.core import HarnessError
from sim.kseam import Seam, compiled_call, kernel, same_results
from sim.mapmodel import (UNIT_CM, Locator, basis_arrays, build_mesh, cell_values, check_basis, direction_arg, documented_basis, gen_direction,
                          gen_mesh, gen_view, mesh_datagroup, requested_normal, view_kwargs)
from sim.parsim import KernelError, Sim, analyse_dry_run, draw_schedule_config

PROPERTY = "C03"
ENGINE = "K"
DEFAULT_SEED = 303
RUNS = {"quick": 1600, "thorough": 100000}
JOBS = {"quick": 8, "thorough": 16}
RUN_WALL_GUARD = 600
SEARCH_SPACE = "meshes x origins x orientations x windows x resolutions x layers x (thread count, partition, interleaving of every store of the kernel's output buffer)"
RULE = ("one run = one in-memory AMR tiling (2-D/3-D, 1-4 levels, optional holes) mapped once through the real front-end with the kernel simulated at T=1 "
        "and under a seeded schedule; every returned pixel is located independently; distinct = hash of (workload, conflict signature); "
        "non-trivial = at least 4 pixels have exactly one containing cell and (>= 2 workers stored to one pixel, or the map cuts >= 2 AMR levels)")
ASSUMPTIONS = [
    "kernel source executed by CPython; parfor lowering/OpenMP/memory model stubbed by the baton scheduler (SC interleavings); compiled T=1 == simulated T=1 on a sample each batch",
    "a sample point within 1e-9 x (window, cell, origin scale) of a cell face may be masked or take the value of any cell touching it, component by component",
    "raising 'No cells were selected' is accepted only when no cell can be seen through the requested window",
    "resolutions up to 24 pixels per axis in simulation",
    "pixels whose sample point lies within 1e-9 window widths of a cell face are not judged (1e-12 in the zoom cases, where the deepest cells are 1.5e-8 window widths wide)",
]
REAL_STUB = {
    "real": ["osyris.map front-end (pre-selection, get_direction/VectorBasis, grid, reduction, masking, vector packing, units)", "Layer / parse_layer", "evaluate_on_grid source (by CPython)"],
    "stub": ["numba parfor lowering + threading layer + OpenMP + CPU memory model (baton scheduler)"],
}
MODNAME = "osyris.plot.map"
KATTR = "evaluate_on_grid"


def prepare(tier):
    warnings.filterwarnings("ignore")
    importlib.import_module("osyris")
    kernel(MODNAME, KATTR)


def gen_layers(rng, ndim):
    out = []
    for _ in range(rng.choice([1, 1, 2, 3])):
        # "level" and "flag" are integer-valued members (int64 / int32): a call may consist of integer layers only
        k = rng.choice(["density", "temperature", "velocity", "velocity-vec", "level", "flag"])
        if k == "velocity-vec":
            out.append({"key": "velocity", "mode": rng.choice(["vec", "stream"])})
        else:
            out.append({"key": k, "mode": rng.choice([None, None, "image", "contourf"])})
    if rng.random() < 0.08:
        out = [{"key": rng.choice(["level", "flag"]), "mode": rng.choice([None, "image"])} for _ in range(rng.choice([1, 2]))]
    return out


def generate(rng, tier):
    m = gen_mesh(rng, tier)
    cells = build_mesh(m)
    view = gen_view(rng, m, cells)
    direction = gen_direction(rng, m["ndim"])
    if m["ndim"] == 3 and rng.random() < 0.08:
        # corner clip: the plane cuts off a corner of the domain, all cut cells lie on one side of it
        box = m["scale"]
        corner = [rng.choice([0.0, 1.0]) for _ in range(3)]
        out = [c - 0.5 for c in corner]
        sgn = rng.choice([1.0, -1.0])
        direction = {"kind": "vec", "v": [round(sgn * (o + rng.uniform(-0.3, 0.3)), 3) or 0.1 for o in out]}
        d = rng.uniform(-0.25, 0.1) * min(c["dx"] for c in cells) / box
        view["origin"] = [box * (c + 2 * o * d) for c, o in zip(corner, out)]
        view["origin_unit"] = m["unit"]
        if rng.random() < 0.7:
            view["dx"], view["dy"] = None, None
    zoom = rng.random() < 0.03
    if zoom:
        # a zoom: a chain of refinements down to level 26 under a map as wide as the domain, one pixel sampling the deepest leaf
        # (cells 10^7 times smaller than the window: the sample points must keep all their digits)
        m = {"wseed": rng.getrandbits(40), "ndim": 2, "levelmin": 1, "levelmax": 26, "refine_p": 0.05, "maxcells": 120, "holes": 0.0, "hole_box": False,
             "unit": "cm", "scale": 1.0, "chain": [round(rng.uniform(0.2, 0.8), 6) + 1.0 / 3e7 for _ in range(2)]}
        cells = build_mesh(m)
        leaf = max(cells, key=lambda c: (c["level"], c["gid"]))
        # pixel (4, 3) of 5 x 5 lies 0.4 and 0.2 window widths from the origin; it samples the leaf a fifth of its half size from a face
        half = 0.5 * leaf["dx"]
        side = rng.choice([1.0, -1.0])
        view = {"origin": [leaf["pos"][0] - 0.4 + side * 0.8 * half, leaf["pos"][1] - 0.2 + rng.choice([0.0, 0.8, -0.8]) * half], "origin_unit": "cm",
                "dx": 1.0, "dy": None, "window_unit": "cm", "resolution": 5}
        direction = gen_direction(rng, 2)
    case = {"mesh": m, "view": view, "direction": direction, "layers": gen_layers(rng, m["ndim"]),
            "call_mode": rng.choice([None, None, "image"]), "sched": draw_schedule_config(rng, maxT=8),
            "knob": rng.choice([None, None, None, 1024, 16384]), "render": rng.choice([True, "log"]) if rng.random() < 0.03 else False,
            # an earlier (unjudged) map of another window made with the same Layer and direction objects
            "prior": rng.random() < 0.12, "later": rng.random() < 0.12}
    if case["render"] == "log":
        # a layer with zero and negative values under the logarithmic colour scale
        case["layers"][0] = {"key": "flag", "mode": rng.choice([None, "image"])}
    if zoom:
        case.update(zoom=True, layers=[{"key": "density", "mode": None}], render=False, prior=False, later=False)
        return case
    if not case["render"] and rng.random() < 0.1:
        # a quantity that is infinite in some cells (a time scale with zero rate), as the last or as another layer
        lay = {"key": "tcool", "mode": rng.choice([None, None, "image"])}
        if rng.random() < 0.7:
            case["layers"].append(lay)
        else:
            case["layers"].insert(0, lay)
    return case


def describe(case):
    if case.get("large"):
        return case
    return _describe(case)


def _describe(case):
    d = dict(case)
    if "decisions" in d:
        d["decisions"] = d["decisions"][:40]
    return d


def make_sim(case, dry):
    s = case["sched"]
    if dry is None:
        return Sim(T=1, record=True)
    T = s["T"]
    if "decisions" in case:
        return Sim(T=T, partition=s["partition"], decisions=case["decisions"])
    pol = dict(s["policy"])
    touches, cont = ({}, {})
    if T > 1:
        touches, cont = analyse_dry_run(dry, T, s["partition"])
        pol["est_events"] = max(1, dry.nevents)
    return Sim(T=T, partition=s["partition"], policy=pol, rng=core.rng_for(s["sched_seed"], "sched"), contenders=cont, touches=touches)


def prior_call(case, dg, extra=None, same_view=False):
    """The caller's earlier use of the same objects: a coarse map of another window (or, with `same_view`, the very same
    view with whatever differs in `extra`).  Returns the state to pass on."""
    m = case["mesh"]
    if same_view:
        state = {}
        try:
            call_map(dict(case, knob=None), dg, lambda: Sim(T=1), extra=extra, state=state)
        except HarnessError:
            raise
        except Exception:
            pass
        return state
    box = m["scale"]
    v = dict(case["view"])
    if v["origin"] is not None:
        v["origin"] = [o + 0.13 * box for o in v["origin"]]  # view values are in the mesh's unit
    else:
        v["origin"], v["origin_unit"] = [0.37 * box] * 3, m["unit"]
    v["dx"], v["dy"], v["window_unit"] = 0.5 * box, None, m["unit"]
    v["resolution"] = 4
    state = {}
    try:
        call_map(dict(case, view=v, knob=None), dg, lambda: Sim(T=1), extra=extra, state=state)
    except HarnessError:
        raise
    except Exception:
        pass
    return state


def call_map(case, dg, sim_factory, extra=None, state=None):
    """`state`: objects the caller keeps between calls (the Layer objects and the direction object)."""
    import osyris

    if state is not None and "layers" in state:
        layers = state["layers"]
    else:
        layers = []
        for l in case["layers"]:
            kw = {}
            if l.get("mode") is not None:
                kw["mode"] = l["mode"]
            if l.get("op") is not None:
                kw["operation"] = l["op"]
            layers.append(dg.layer(l["key"], **kw))
    kw = view_kwargs(case["view"], case["mesh"])
    kw["direction"] = state["direction"] if state is not None and "direction" in state else direction_arg(case["direction"])
    if state is not None:
        state["layers"], state["direction"] = layers, kw["direction"]
    kw["plot"] = False
    if case.get("call_mode") is not None:
        kw["mode"] = case["call_mode"]
    if extra:
        kw.update(extra)
    with Seam(MODNAME, KATTR, sim_factory, knob_scale=case.get("knob")) as seam:
        with np.errstate(all="ignore"):
            plot = osyris.map(*layers, **kw)
    return plot, seam.calls, kw


def expected_layers(case, vals, idx, u, v):
    """Model value of every layer for cell index idx: list of arrays (scalar -> shape (), vec -> shape (3,))."""
    ndim = case["mesh"]["ndim"]
    out = []
    for l in case["layers"]:
        mode = l.get("mode") if l.get("mode") is not None else case.get("call_mode")
        if l["key"] == "velocity":
            vec = vals["velocity"][idx]
            if mode in ("vec", "stream", "lic"):
                if ndim == 3:
                    a, b = float(vec @ u), float(vec @ v)
                else:
                    a, b = float(vec[0]), float(vec[1])
                out.append(np.array([a, b, np.hypot(a, b)]))
            else:
                out.append(np.array(float(np.sqrt(np.sum(vec ** 2)))))
        else:
            out.append(np.array(float(vals[l["key"]][idx])))
    return out


def judge(case, plot, cells, loc, vals, origin_s, nuv, V, stats, label, thick=None):
    """Zero-thickness oracle.  Returns dict(n_unique, levels_cut, ambiguous)."""
    m = case["mesh"]
    ndim = m["ndim"]
    n, u, v = nuv
    su = UNIT_CM[m["unit"]]
    map_unit = case["view"]["window_unit"] if case["view"]["dx"] is not None else m["unit"]
    f = UNIT_CM[map_unit] / su
    xs = np.asarray(plot.x, dtype=float) * f
    ys = np.asarray(plot.y, dtype=float) * f
    scale = max(float(np.max(np.abs(xs))) if xs.size else 0.0, float(np.max(np.abs(ys))) if ys.size else 0.0,
                max(c["dx"] for c in cells), float(np.max(np.abs(origin_s))) if len(origin_s) else 0.0)
    eps = (1e-12 if case.get("zoom") else 1e-9) * scale
    nl = len(case["layers"])
    if len(plot.layers) != nl:
        V("structure", "layer-count", {"got": len(plot.layers), "want": nl})
        return None
    datas, masks = [], []
    for k, layer in enumerate(plot.layers):
        d = layer["data"]
        datas.append(np.ma.getdata(d))
        masks.append(np.ma.getmaskarray(d))
        want_shape = (len(ys), len(xs)) + ((3,) if datas[-1].ndim == 3 else ())
        if datas[-1].shape != want_shape:
            V("structure", "shape", {"layer": k, "shape": list(datas[-1].shape), "want": list(want_shape)})
            return None
    n_unique = n_amb = n_empty = 0
    levels = set()
    for j, y in enumerate(ys):
        for i, x in enumerate(xs):
            p = origin_s + x * u + y * v
            inside, touch = loc.locate(p, eps)
            if len(touch) == 0:
                n_empty += 1
                for k in range(nl):
                    if not np.all(masks[k][j, i]):
                        V("pixel", "value-where-no-cell", {"layer": k, "pixel": [j, i], "point": p.tolist(), "got": np.asarray(datas[k][j, i]).tolist()})
                        return None
                continue
            if len(inside) == 1 and len(touch) == 1:
                n_unique += 1
                c = int(inside[0])
                levels.add(cells[c]["level"])
                exp = expected_layers(case, vals, c, u, v)
                for k in range(nl):
                    if np.any(masks[k][j, i]):
                        V("pixel", "wrongly-masked", {"layer": k, "pixel": [j, i], "point": p.tolist(), "cell": cells[c], "label": label})
                        return None
                    got = np.asarray(datas[k][j, i], dtype=float)
                    if got.shape != exp[k].shape or not np.allclose(got, exp[k], rtol=1e-10, atol=1e-12):
                        V("pixel", "wrong-value", {"layer": k, "pixel": [j, i], "point": p.tolist(), "got": got.tolist(), "want": exp[k].tolist(),
                                                   "cell": cells[c], "label": label})
                        return None
                continue
            # face band: masked, or (component by component) the value of any touching cell
            n_amb += 1
            exps = [expected_layers(case, vals, int(c), u, v) for c in touch]
            for k in range(nl):
                if np.all(masks[k][j, i]):
                    continue
                got = np.atleast_1d(np.asarray(datas[k][j, i], dtype=float))
                for ci in range(got.size):
                    cands = [np.atleast_1d(e[k])[ci] for e in exps]
                    if ci == 2 and got.size == 3:
                        # in-plane magnitude of a mixed (torn) pixel: any combination of candidate components
                        a = [np.atleast_1d(e[k])[0] for e in exps]
                        b = [np.atleast_1d(e[k])[1] for e in exps]
                        cands = cands + [np.hypot(x_, y_) for x_ in a for y_ in b]
                    if not any(np.isclose(got[ci], cnd, rtol=1e-10, atol=1e-12) for cnd in cands):
                        V("pixel", "face-band-foreign-value", {"layer": k, "pixel": [j, i], "got": got.tolist(), "candidates": [np.atleast_1d(e[k]).tolist() for e in exps]})
                        return None
    stats.inc("ambig.pixels_on_cell_face", n_amb)
    stats.inc("steps.pixels_judged", n_unique + n_amb + n_empty)
    return {"n_unique": n_unique, "levels": len(levels), "n_amb": n_amb, "n_empty": n_empty}


def any_cell_visible(case, cells, loc, origin_s, nuv):
    """Could a standard pixel grid of the requested window see a cell?  (used when the front-end raises)"""
    view = case["view"]
    if view["dx"] is None:
        # whole-domain window: is any cell cut by the plane?
        n = nuv[0]
        for c in cells:
            p = np.zeros(3)
            p[: len(c["pos"])] = c["pos"]
            if abs((p - origin_s) @ n) < 0.5 * c["dx"]:
                return True
        return False
    res = view["resolution"]
    nx = res if isinstance(res, int) else res.get("x", 256)
    ny = res if isinstance(res, int) else res.get("y", 256)
    dx = view["dx"]
    dy = view["dy"] if view["dy"] is not None else dx
    n, u, v = nuv
    xs = -0.5 * dx + (np.arange(nx) + 0.5) * dx / nx
    ys = -0.5 * dy + (np.arange(ny) + 0.5) * dy / ny
    eps = 1e-9 * max(dx, dy, max(c["dx"] for c in cells))
    for y in ys:
        for x in xs:
            inside, touch = loc.locate(origin_s + x * u + y * v, eps)
            if len(inside):
                return True
    return False


def render_clause(case, dg, p1, V, stats):
    """plot=True: the QuadMesh of every image layer carries the layer's data and the axes span the window."""
    import matplotlib

    matplotlib.use("Agg")
    import matplotlib.pyplot as plt
    from matplotlib.collections import QuadMesh

    extra = {"plot": True}
    if case.get("render") == "log":
        extra["norm"] = "log"  # a logarithmic colour scale, also over data with zero or negative values
        stats.inc("probe.rendered_with_log_norm")
    try:
        with warnings.catch_warnings():
            warnings.simplefilter("ignore")
            plot, calls, kw = call_map(case, dg, lambda: Sim(T=1), extra=extra)
    except Exception as e:
        stats.inc("ambig.rendering_failed_in_matplotlib")
        plt.close("all")
        return
    # what the drawn call returns is the same map as the undrawn one: same pixels masked, same values
    for k, (la, lb) in enumerate(zip(plot.layers, p1.layers)):
        ma, mb = np.ma.getmaskarray(la["data"]), np.ma.getmaskarray(lb["data"])
        if ma.shape != mb.shape or not np.array_equal(ma, mb) or not np.array_equal(np.ma.getdata(la["data"])[~ma], np.ma.getdata(lb["data"])[~mb]):
            V("render", "returned-data-differs-when-drawn", {"layer": k, "norm": extra.get("norm"), "masked_drawn": int(ma.sum()), "masked_undrawn": int(mb.sum())})
            plt.close("all")
            return
    try:
        stats.inc("probe.rendered_with_matplotlib")
        meshes = [c for c in plot.ax.collections if isinstance(c, QuadMesh)]
        image_layers = [k for k, l in enumerate(case["layers"]) if (l.get("mode") if l.get("mode") is not None else case.get("call_mode")) in (None, "image")]
        if len(meshes) != len(image_layers):
            V("render", "quadmesh-count", {"got": len(meshes), "want": len(image_layers)})
            return
        for qm, k in zip(meshes, image_layers):
            arr = np.ma.masked_invalid(np.ma.asarray(qm.get_array()))
            want = p1.layers[k]["data"]
            if arr.size != want.size:
                V("render", "quadmesh-shape", {"layer": k, "got": list(arr.shape), "want": list(want.shape)})
                return
            arr = arr.reshape(want.shape)
            ma, mw = np.ma.getmaskarray(arr), np.ma.getmaskarray(want)
            if not np.array_equal(ma, mw) or not np.allclose(np.ma.getdata(arr)[~ma], np.ma.getdata(want)[~mw], rtol=1e-12, atol=0):
                V("render", "quadmesh-data", {"layer": k})
                return
        xs, ys = np.asarray(p1.x, dtype=float), np.asarray(p1.y, dtype=float)
        for name, c, lim in (("x", xs, plot.ax.get_xlim()), ("y", ys, plot.ax.get_ylim())):
            if len(c) < 2:
                continue
            sp = c[1] - c[0]
            want = (c[0] - 0.5 * sp, c[-1] + 0.5 * sp)
            if not np.allclose(lim, want, rtol=1e-9, atol=1e-12 * max(1.0, abs(want[0]), abs(want[1]))):
                V("render", "axis-limits", {"axis": name, "got": list(lim), "want": list(want)})
                return
    finally:
        plt.close("all")


def setup(case):
    import osyris

    m = case["mesh"]
    cells = build_mesh(m)
    dg = mesh_datagroup(m, cells)
    loc = Locator(cells, m["ndim"])
    vals = cell_values(m, cells)
    if any(l["key"] == "tcool" for l in case.get("layers", [])):
        g = np.array([c["gid"] for c in cells], dtype=float)
        vals["tcool"] = np.where(g.astype(np.int64) % 3 == 1, np.inf, 10.0 + g)
        dg["tcool"] = osyris.Array(values=vals["tcool"].copy(), unit="s")
    origin_s = np.zeros(3)
    if case["view"]["origin"] is not None:
        origin_s[: m["ndim"]] = case["view"]["origin"]
    return cells, dg, loc, vals, origin_s


def get_basis(case, dg, kw):
    import osyris

    m = case["mesh"]
    if m["ndim"] < 3:
        return [np.array([0.0, 0.0, 1.0]), np.array([1.0, 0.0, 0.0]), np.array([0.0, 1.0, 0.0])], None
    gd = importlib.import_module("osyris.plot.direction").get_direction
    basis = gd(direction=kw["direction"], data=dg.layer("density"), dx=kw.get("dx"), dy=kw.get("dy", kw.get("dx")), origin=kw.get("origin"))
    nuv = basis_arrays(basis, 3)
    bad = check_basis(*nuv, want_normal=requested_normal(case["direction"]))
    doc = documented_basis(case["direction"])
    if doc is not None:
        # axis letters, axis triples and explicit bases *name* u and v: the pixel coordinates are judged in that basis
        if bad is None and any(np.linalg.norm(a - b) > 1e-9 for a, b in zip(nuv, doc)):
            bad = "not-the-requested-basis"
        return doc, bad
    if bad is None and np.linalg.norm(np.cross(nuv[1], nuv[2]) - nuv[0]) > 1e-9:
        bad = "not-right-handed"  # only the normal was given: u x v = n
    return nuv, bad


def execute_large(case, stats):
    """Resolutions the simulator cannot reach (the statement says: all resolutions): the shipped front-end and the compiled
    kernel with one numba thread (deterministic) on a few hundred cells and ~10^5 pixels, against a vectorised
    point-in-cell reference.  Pixels whose sample point is within 1e-9 of a cell face are not judged."""
    import numba
    import osyris

    lg = case["large"]
    m = lg["mesh"]
    viol = []
    out = {"violations": viol, "nontrivial": True, "signature": "large:" + core.digest(lg)[:12]}
    cells = build_mesh(m)
    dg = mesh_datagroup(m, cells)
    vals = cell_values(m, cells)["density"]
    kw = {"dx": lg["dx"] * osyris.units(m["unit"]), "origin": osyris.Vector(*lg["origin"], unit=m["unit"]), "direction": direction_arg(lg["direction"]),
          "resolution": {"x": lg["nx"], "y": lg["ny"]}, "plot": False}
    old = numba.get_num_threads()
    numba.set_num_threads(1)
    try:
        with np.errstate(all="ignore"):
            plot = osyris.map(dg.layer("density"), **kw)
    except Exception as e:
        viol.append({"class": "frontend-exception", "clause": "large", "key": {"class": "frontend-exception", "clause": "large"}, "detail": {"error": f"{type(e).__name__}: {e}"[:300]}})
        return out
    finally:
        numba.set_num_threads(old)
    nuv, bad = get_basis({"mesh": m, "direction": lg["direction"]}, dg, kw)
    if bad is not None:
        viol.append({"class": "basis", "clause": bad, "key": {"class": "basis", "clause": bad}, "detail": {}})
        return out
    n_, u, v = nuv
    xs, ys = np.asarray(plot.x, dtype=float), np.asarray(plot.y, dtype=float)
    data = plot.layers[0]["data"]
    got, mask = np.ma.getdata(data), np.ma.getmaskarray(data)
    if got.shape != (lg["ny"], lg["nx"]) or xs.shape != (lg["nx"],) or ys.shape != (lg["ny"],):
        viol.append({"class": "structure", "clause": "shape", "key": {"class": "structure", "clause": "shape"}, "detail": {"shape": list(got.shape), "want": [lg["ny"], lg["nx"]]}})
        return out
    X, Y = np.meshgrid(xs, ys)
    P = np.asarray(lg["origin"], dtype=float)[None, None, :] + X[..., None] * u[None, None, :] + Y[..., None] * v[None, None, :]
    want = np.full(X.shape, np.nan)
    n_in = np.zeros(X.shape, dtype=np.int32)
    n_touch = np.zeros(X.shape, dtype=np.int32)
    for c, val in zip(cells, vals):
        d = np.abs(P - np.asarray(c["pos"], dtype=float)[None, None, :])
        h = 0.5 * c["dx"]
        eps = 1e-9 * max(1.0, m["scale"])
        tch = np.all(d <= h + eps, axis=2)
        ins = np.all(d < h - eps, axis=2)
        n_touch += tch
        n_in += ins
        want[ins] = val
    stats.inc("probe.large_map_compiled_run")
    stats.inc("steps.pixels_judged_large", int(X.size))
    clear = (n_touch == 1) & (n_in == 1)
    empty = n_touch == 0
    bad_masked = clear & mask
    bad_val = clear & ~mask & ~np.isclose(got, want, rtol=1e-10, atol=1e-12)
    bad_empty = empty & ~mask
    for name, b in (("wrongly-masked", bad_masked), ("wrong-value", bad_val), ("value-where-no-cell", bad_empty)):
        if np.any(b):
            j, i = [int(q) for q in np.argwhere(b)[0]]
            viol.append({"class": "pixel", "clause": name + "@large", "key": {"class": "pixel", "clause": name + "@large"},
                         "detail": {"pixel": [j, i], "n_pixels_wrong": int(b.sum()), "got": None if mask[j, i] else float(got[j, i]), "want": None if np.isnan(want[j, i]) else float(want[j, i])}})
            break
    return out


def execute(case, stats):
    if case.get("large"):
        return execute_large(case, stats)
    viol = []
    res = {"violations": viol, "nontrivial": False}

    def V(cls, clause, detail):
        viol.append({"class": cls, "clause": clause, "key": {"class": cls, "clause": clause}, "detail": detail})

    cells, dg, loc, vals, origin_s = setup(case)
    runs = []
    dry_sim = None
    kw = None
    state = None
    if case.get("prior"):
        state = prior_call(case, dg)
        stats.inc("probe.earlier_map_with_the_same_layer_objects")
    for phase in ("t1", "sched"):
        def factory():
            return make_sim(case, None if phase == "t1" else dry_sim)

        try:
            plot, calls, kw = call_map(case, dg, factory, state=state)
        except KernelError as e:
            V("kernel-exception", phase, {"error": str(e)[:300]})
            return res
        except HarnessError:
            raise
        except RuntimeError as e:
            if "No cells were selected" in str(e):
                kw = view_kwargs(case["view"], case["mesh"])
                kw["direction"] = direction_arg(case["direction"])
                nuv, bad = get_basis(case, dg, kw)
                if bad is None and any_cell_visible(case, cells, loc, origin_s, nuv):
                    V("pixel", "raised-although-cells-visible", {"error": str(e)[:120]})
                else:
                    stats.inc("ambig.empty_map_raised")
                res["signature"] = None
                return res
            V("frontend-exception", phase, {"error": f"{type(e).__name__}: {e}"[:300]})
            return res
        except Exception as e:
            import traceback

            V("frontend-exception", phase, {"error": f"{type(e).__name__}: {e}"[:300], "tb": traceback.format_exc()[-400:]})
            return res
        if len(calls) != 1:
            # the front-end does not go through the evaluate_on_grid seam as known here: nothing to schedule,
            # the returned Plot is judged at user level only
            stats.inc("probe.kernel_seam_not_used")
            calls = [{"args": None, "result": None, "sim": Sim(T=1)}]
        runs.append((plot, calls[0]))
        if phase == "t1":
            dry_sim = calls[0]["sim"]
            if case["sched"]["T"] == 1 and "decisions" not in case:
                runs.append(runs[0])
                break
    (p1, c1), (p2, c2) = runs
    sim2 = c2["sim"]
    stats.inc("steps.memory_events", c1["sim"].nevents + (sim2.nevents if sim2 is not c1["sim"] else 0))
    stats.inc("steps.context_switches", sim2.switches)
    stats.inc(f"swarm.T={case['sched']['T']}")
    stats.inc(f"swarm.partition={case['sched']['partition']['kind']}")
    stats.inc(f"swarm.scheduler={case['sched']['policy']['kind'] if 'decisions' not in case else 'replay'}")
    stats.inc(f"swarm.ndim={case['mesh']['ndim']}")
    sig, nshared = sim2.conflict_signature()
    if nshared:
        stats.add("conflict_signatures", sig)  # distinct orders of (worker, load|store) on elements touched by >= 2 workers
    for k, v in sim2.probe.items():
        stats.inc("probe." + k, v)
    res["decisions"] = sim2.decisions
    res["kernel_args"] = c1["args"]
    nuv, bad = get_basis(case, dg, kw)
    if bad is not None:
        V("basis", bad, {"n": nuv[0].tolist(), "u": nuv[1].tolist(), "v": nuv[2].tolist()})
        return res
    if case.get("later"):
        # the caller keeps the returned Plot and makes another map of the same shape (same layers and resolution, another
        # origin) before looking at it: a result handed out must not change afterwards
        m_ = case["mesh"]
        v_ = dict(case["view"])
        v_["origin"] = [o + 0.11 * m_["scale"] for o in v_["origin"]] if v_["origin"] is not None else [0.41 * m_["scale"]] * 3
        if v_["origin"] is not None and case["view"]["origin"] is None:
            v_["origin_unit"] = m_["unit"]
        try:
            call_map(dict(case, view=v_, knob=None), dg, lambda: Sim(T=1))
        except HarnessError:
            raise
        except Exception:
            pass
        stats.inc("probe.plot_judged_after_a_later_map_of_the_same_shape")
    info = judge(case, p1, cells, loc, vals, origin_s, nuv, V, stats, "T=1")
    ks_ = kernel(MODNAME, KATTR)[2]
    if case.get("knob") and ks_ is not None and ks_.knobs:
        stats.inc("probe.run_with_shrunken_kernel_knobs")
        if viol:
            # shrinking the constants changes the sequential result: not tuning knobs; judge the shipped values only
            stats.inc("ambig.knob_variant_changes_sequential_result")
            return execute(dict(case, knob=None), stats)
    if info is None:
        return res
    # units and names of the returned layers
    import osyris

    for k, (layer, l) in enumerate(zip(p1.layers, case["layers"])):
        want_u = dg[l["key"]].unit
        if layer["unit"] != want_u or layer["name"] != l["key"]:
            V("structure", "layer-unit-or-name", {"layer": k, "unit": str(layer["unit"]), "name": layer["name"]})
    if not viol and c2 is not c1:
        info2 = judge(case, p2, cells, loc, vals, origin_s, nuv, V, stats, "scheduled")
        if info2 is not None and not viol:
            # schedule independence outside the face band
            for k in range(len(p1.layers)):
                a, b = p1.layers[k]["data"], p2.layers[k]["data"]
                ma, mb = np.ma.getmaskarray(a), np.ma.getmaskarray(b)
                if info["n_amb"] == 0 and (not np.array_equal(ma, mb) or not np.array_equal(np.ma.getdata(a)[~ma], np.ma.getdata(b)[~mb])):
                    V("schedule-dependence", "pixels", {"layer": k})
    if case.get("render") and not viol:
        render_clause(case, dg, p1, V, stats)
    wl = core.digest({k: case[k] for k in ("mesh", "view", "direction", "layers", "call_mode")})[:16]
    res["signature"] = wl + ":" + sig
    res["nontrivial"] = bool(info["n_unique"] >= 4 and (nshared > 0 or info["levels"] >= 2))
    if info["n_unique"] == 0:
        stats.inc("probe.map_without_unambiguous_pixel")
    view = case["view"]
    if view["dx"] is not None and view["dx"] < max(c["dx"] for c in cells):
        stats.inc("probe.window_smaller_than_largest_cell")
    return res


# --------------------------------------------------------------------------


def measure(case):
    if case.get("large"):
        return (case["large"]["nx"] * case["large"]["ny"],)
    m, v = case["mesh"], case["view"]
    dec = case.get("decisions")
    sw = sum(1 for a, b in zip(dec, dec[1:]) if a != b) if dec else 10 ** 6
    res = v["resolution"]
    npix = res * res if isinstance(res, int) else res.get("x", 256) * res.get("y", 256)
    return (m["maxcells"], m["levelmax"], npix, len(case["layers"]), case["sched"]["T"], m["ndim"], int(case["direction"]["kind"] in ("vec", "basis")),
            int(v["origin"] is not None), int(v["dy"] is not None), int(m["holes"] > 0) + int(bool(m.get("hole_box"))),
            int(m["unit"] != "cm") + int(v["window_unit"] != m["unit"]) + int(v["origin_unit"] != m["unit"]) + int(m["scale"] != 1.0), int(bool(case.get("prior"))) + int(bool(case.get("later"))), sw)


def canonical(case, viol):
    if case.get("large") or "decisions" in case or case["sched"]["T"] == 1:
        return case
    r = execute(case, core.Stats())
    c = dict(case)
    c["decisions"] = list(r.get("decisions", []))
    return c


def reductions(case, viol):
    if case.get("large"):
        return
    m, v = case["mesh"], case["view"]
    if case.get("prior"):
        yield dict(case, prior=False)
    if case.get("later"):
        yield dict(case, later=False)
    for mc in (1, 8, 20, m["maxcells"] // 2):
        if mc < m["maxcells"]:
            yield dict(case, mesh=dict(m, maxcells=mc))
    if m["levelmax"] > m["levelmin"]:
        yield dict(case, mesh=dict(m, levelmax=m["levelmax"] - 1))
    if m["levelmin"] > 1:
        yield dict(case, mesh=dict(m, levelmin=m["levelmin"] - 1, levelmax=max(m["levelmin"] - 1, m["levelmax"] - 1)))
    if m["holes"] or m.get("hole_box"):
        yield dict(case, mesh=dict(m, holes=0.0, hole_box=False))
    res = v["resolution"]
    for r in (1, 2, 4):
        npix = res * res if isinstance(res, int) else res.get("x", 256) * res.get("y", 256)
        if r * r < npix:
            yield dict(case, view=dict(v, resolution=r))
    if len(case["layers"]) > 1:
        for i in range(len(case["layers"])):
            yield dict(case, layers=case["layers"][:i] + case["layers"][i + 1:])
    if case.get("knob"):
        yield dict(case, knob=None)
    if case["sched"]["T"] > 1:
        c = dict(case, sched=dict(case["sched"], T=1, policy={"kind": "seq"}))
        c.pop("decisions", None)
        yield c
    if case["direction"]["kind"] in ("vec", "basis"):
        yield dict(case, direction={"kind": "str", "s": "z"})
    if v["dy"] is not None:
        yield dict(case, view=dict(v, dy=None))
    if m["unit"] != "cm" or v["window_unit"] != m["unit"] or v["origin_unit"] != m["unit"] or m["scale"] != 1.0:
        sc = m["scale"]
        vv = dict(v, window_unit="cm", origin_unit="cm", dx=None if v["dx"] is None else v["dx"] / sc, dy=None if v["dy"] is None else v["dy"] / sc,
                  origin=None if v["origin"] is None else [o / sc for o in v["origin"]])
        yield dict(case, mesh=dict(m, unit="cm", scale=1.0), view=vv)
    if v["origin"] is not None:
        yield dict(case, view=dict(v, origin=[round(o, 2) for o in v["origin"]]))


def finalize(tier, base_seed, stats, viols):
    import random

    nanchor = 12 if tier == "quick" else 150
    checked = 0
    for r in range(nanchor):
        rng = random.Random(core.H(base_seed, PROPERTY, "anchor", r))
        case = generate(rng, tier)
        case["sched"] = {"T": 1, "partition": {"kind": "static-equal"}, "policy": {"kind": "seq"}, "sched_seed": 0}
        res = execute(case, core.Stats())
        if res["violations"] or res.get("kernel_args") is None:
            continue
        args = res["kernel_args"]
        mod, orig, ks = kernel(MODNAME, KATTR)
        sim_out = ks.run(Sim(T=1), **args)
        real_out = compiled_call(MODNAME, KATTR, args, nthreads=1)
        if not same_results(sim_out, real_out):
            raise HarnessError(f"model divergence: simulated T=1 != compiled T=1 for anchor case {r}")
        checked += 1
    # ---- resolutions beyond the simulator: shipped front-end + compiled kernel, one thread, vectorised reference
    import sys

    nlarge = 0
    for k in range(2 if tier == "quick" else 8):
        rng = random.Random(core.H(base_seed, PROPERTY, "large", k))
        m = {"wseed": rng.getrandbits(30), "ndim": 3, "levelmin": 2, "levelmax": 4, "refine_p": 0.35, "maxcells": rng.choice([400, 900]), "holes": 0.0, "hole_box": False,
             "unit": "cm", "scale": 1.0}
        dirs = [{"kind": "str", "s": rng.choice(["x", "y", "z", "zyx", "yzx"])}, {"kind": "vec", "v": [round(rng.uniform(-1, 1), 3) or 0.3 for _ in range(3)]}]
        case = {"large": {"mesh": m, "dx": round(rng.uniform(0.3, 1.1), 4), "origin": [round(rng.uniform(0.3, 0.7), 5) + 1.37e-6 for _ in range(3)],
                          "direction": dirs[k % 2], "nx": rng.choice([384, 512, 640]), "ny": rng.choice([200, 300])}, "run": -1 - k, "seed": 0}
        res = core.safe_execute(sys.modules[__name__], case, stats)
        nlarge += 1
        for v_ in res["violations"]:
            viols.append({"case": case, "violation": v_})
    return {"fidelity_anchor": {"workloads_compiled_T1_equal_simulated_T1": checked, "attempted": nanchor},
            "large_maps": {"runs": nlarge, "how": "shipped front-end, compiled kernel, 1 numba thread, vectorised point-in-cell reference, ~10^5 pixels each"}}
