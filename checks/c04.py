"""C04 -- selective loading equals filtering the full load (CPU pre-selection is sound).

Engine W, fault-free world search: worlds with an adversarial Hilbert (3-D, 1-D)
or non-Hilbert domain decomposition; interval predicates on any subset of axes
(each containing >= 1 finest-level centre), optionally ANDed with value
predicates; explicit cpu_list.  The selective load must equal the unselected
load filtered by the predicates (exact, every variable) and the model's filter.
"""
import importlib
import warnings

import numpy as np

from sim import core
from sim.fsseam import FsSeam
from sim.preds import (CALLABLE_KINDS, as_callable, gen_dx_pred, gen_interval, gen_level_pred, gen_value_pred, interval_accepts, interval_func, level_accepts, level_func, value_accepts,
                       value_func)
from sim.wcheck import Disk, MeshView, compare_full, components, gen_world_params
from checks.c01 import world_reductions

PROPERTY = "C04"
ENGINE = "W"
DEFAULT_SEED = 404
RUNS = {"quick": 1200, "thorough": 80000}
JOBS = {"quick": 8, "thorough": 16}
SEARCH_SPACE = "world states (octree x increasing bound-key sequences incl. tiny/clustered ranges x ghost population) x interval predicates on axis subsets x value predicates x explicit cpu lists (no faults)"
RULE = ("one run = one world loaded fully and selectively (1-3 selections) by fresh datasets (25%: the argument objects were used by an earlier load; 20%: the selective load is made on a dataset already holding the full load); distinct = hash of (world, selections); "
        "non-trivial = Hilbert ordering with >= 2 ranks and a position predicate that excludes at least one rank's file, or an explicit cpu_list")
ASSUMPTIONS = [
    "oct ownership follows RAMSES: an oct belongs to the rank whose key range contains the Hilbert key (at levelmax+1 bits) of its father cell's centre; the level-1 oct to the rank of the box centre",
    "2-D Hilbert decompositions are not generated (RAMSES' 2-D curve is not reproducible here); 1-D uses the identity curve; 3-D the frozen, structurally validated state diagram",
    "every position interval contains at least one finest-level cell centre on its axis (the property's precondition)",
    "the number of files opened is recorded as evidence, never judged",
    "an explicit cpu_list may be empty (no rank: no cell) and may be a list, a tuple or an integer array; predicates may answer with 0/1 integers",
]
REAL_STUB = {
    "real": ["osyris.io.hilbert (bound-key parsing, search cubes, key-interval tests)", "AmrReader.initialize / Loader cpu-list handling", "per-cell predicates on unit-carrying buffers"],
    "stub": ["the RAMSES ranks and their domain decomposition (sim/ramses.py, sim/hilbert_ref.py)"],
}


def prepare(tier):
    warnings.filterwarnings("ignore")
    importlib.import_module("osyris")


def gen_selection(rng, p, leaves=None):
    r = rng.random()
    sel = {"intervals": [], "values": [], "cpu_list": None}
    if leaves and rng.random() < 0.35:
        # a small box around the centre of an actual (preferably coarse) leaf: the case in which the
        # qualifying cell is larger than the search cubes of the pre-selection
        lv = sorted({c["level"] for c in leaves})
        lvl = rng.choice(lv[: max(1, len(lv) // 2 + 1)])
        cell = rng.choice([c for c in leaves if c["level"] == lvl])
        fine = 1.0 / 2 ** p["levelmax"]
        for d, c in enumerate("xyz"[: p["ndim"]]):
            x = cell["pos"][d] / p["boxlen"]
            h1, h2 = fine * rng.uniform(0.55, 1.6), fine * rng.uniform(0.55, 1.6)
            sel["intervals"].append({"var": "position_" + c, "lo": max(0.0, x - h1), "hi": min(1.0, x + h2), "lo_closed": rng.random() < 0.5, "hi_closed": rng.random() < 0.5})
        if rng.random() < 0.2:
            sel["level"] = gen_level_pred(rng, p["levelmin"], p["levelmax"])
        return sel
    if r < 0.12:
        # (a list computed by the caller may come out empty, and may be a tuple or an integer array)
        k = 0 if rng.random() < 0.12 else rng.randrange(1, p["ncpu"] + 1)
        sel["cpu_list"] = rng.sample(range(1, p["ncpu"] + 1), k)
        sel["cpu_list_as"] = rng.choice(["list", "list", "tuple", "ndarray"])
        if rng.random() < 0.5:
            return sel
    if rng.random() < 0.65:
        # a compact box: all axes, one size class (this is what makes the CPU pre-selection selective)
        kind = rng.choice(["tiny", "tiny", "leaf", "leaf", "few"])
        for c in "xyz"[: p["ndim"]]:
            sel["intervals"].append(gen_interval(rng, c, p["levelmax"], kind=kind))
    else:
        axes = [c for c in "xyz"[: p["ndim"]] if rng.random() < 0.6] or [rng.choice("xyz"[: p["ndim"]])]
        for c in axes:
            sel["intervals"].append(gen_interval(rng, c, p["levelmax"]))
    if rng.random() < 0.3:
        sel["values"].append(gen_value_pred(rng, p, ncells_hint=rng.choice([8, 64, 300, 2000])))
    if rng.random() < 0.1:
        sel["values"].append(gen_dx_pred(rng, p["levelmin"], p["levelmax"]))
    if rng.random() < 0.25:
        # 'level' is a mesh variable like any other: a predicate on it caps the traversal (C12) while the
        # position predicates drive the CPU pre-selection
        sel["level"] = gen_level_pred(rng, p["levelmin"], p["levelmax"])
    return sel


def generate(rng, tier):
    p = gen_world_params(rng, tier, max_cells=rng.choice([100, 300, 800]), hilbert=None if rng.random() < 0.25 else True)
    if p["ordering"] == "hilbert" and p["ndim"] == 2:
        p["ndim"] = rng.choice([1, 3, 3, 3])
    if p["levelmax"] > 6:
        p["levelmax"] = 6
        p["levelmin"] = min(p["levelmin"], 6)
    if p["ordering"] == "hilbert" and p["ndim"] == 3 and rng.random() < 0.6:
        # deeper uniform base grid: the pre-selection can use finer search cubes
        p["levelmin"] = rng.choice([2, 3, 3])
        p["levelmax"] = max(p["levelmax"], p["levelmin"] + rng.choice([0, 1, 1, 2]))
        p["maxcells"] = max(p["maxcells"], 600)
    if p["ordering"] == "hilbert" and rng.random() < 0.3:
        p["ncpu"] = rng.choice([8, 12, 16])
        kmax = (2 ** p["ndim"]) ** (p["levelmax"] + 1)
        if kmax <= p["ncpu"] + 1:
            p["ncpu"] = 2
        p["bound_frac"] = sorted(rng.random() for _ in range(p["ncpu"] - 1))
        if p["part"]:
            p["part"] = None
    p["part"] = None
    from sim.ramses import World

    deep = rng.random() < 0.06
    if deep:
        # a deep uniform base grid (as in production runs): the search cubes of the pre-selection reach the third and fourth
        # digit of the Hilbert key.  A run of consecutive level-4 cubes along the curve gets one rank each (bound keys on the
        # cube boundaries), and the boxes are placed inside those cubes: a wrong key for any of them selects the wrong file
        from sim.hilbert_ref import hilbert3d

        lmax = rng.choice([4, 4, 5])
        ncpu = rng.choice([8, 12, 16, 24])
        p.update(ndim=3, ordering="hilbert", levelmin=4, levelmax=lmax, maxcells=rng.choice([4200, 4700]), ncpu=ncpu, nboundary=0, sink=None,
                 grav=False, rt_vars=None, ghost_p=rng.choice([0.0, 0.0, 0.3]), bound_frac=None)
        p["hydro_vars"] = p["hydro_vars"][:3]
        # the finest search cubes are those of level levelmin - 1 (the father cells of the coarsest leaves)
        nb_, side = 3, 8
        fine_ranks = rng.random() < 0.4
        if fine_ranks:
            # ranks as fine as the coarsest leaves themselves: an oct then lives in the file of the rank that owns the key
            # of its father's centre, which is in general not the rank of the cube the leaf itself lies in
            # (levelmax 5: the loader derives its bounding box from the finest-level centres inside the intervals)
            nb_, side, lmax = 4, 16, 5
            p.update(levelmax=5)
        inv = {hilbert3d(x, y, z, nb_): (x, y, z) for x in range(side) for y in range(side) for z in range(side)}
        k0 = rng.randrange(0, side ** 3 - ncpu)
        step = 8 ** (lmax + 1 - nb_)
        p["bound_keys"] = [(k0 + i) * step for i in range(1, ncpu)]
    tall = (not deep) and p["ordering"] == "hilbert" and p["ndim"] == 3 and rng.random() < 0.1
    if tall:
        # a run set up for deep refinement (levelmax 20-30 in the info file, Hilbert keys beyond 2**60) of which only the first
        # few levels are populated yet
        p.update(levelmin=rng.choice([2, 2, 3]), levelmax=rng.choice([20, 21, 24, 30]), maxcells=min(p["maxcells"], 600), refine_p=min(p.get("refine_p", 0.3), 0.3),
                 bound_keys=None, ncpu=max(p["ncpu"], rng.choice([3, 5, 6])))
        p["bound_frac"] = sorted(rng.random() for _ in range(p["ncpu"] - 1))
    deep_edge = (not deep) and (not tall) and rng.random() < 0.06
    if deep_edge:
        # a zoom refined to level 14-21 right below a face of the coarse search cubes, and a box whose lower edge lies a fraction of
        # a finest cell below that face: the cells in that sliver belong to the cube on the other side of the face
        lm = rng.choice([2, 3])
        f = rng.randrange(1, 2 ** (lm - 1)) / 2 ** (lm - 1) if lm > 2 else 0.5
        ax = rng.randrange(3)
        pt = [round(rng.uniform(0.1, 0.9), 6) + 1.0 / 3e7 for _ in range(3)]
        L_ = rng.choice([14, 16, 18, 20, 20, 21])
        pt[ax] = f - 0.2 * 2.0 ** -L_
        p.update(ndim=3, ordering="hilbert", levelmin=lm, levelmax=L_, maxcells=300, refine_p=0.1, nboundary=0, bound_keys=None,
                 ncpu=rng.choice([6, 8, 12, 16, 24]), chain=pt, part=None, sink=None, ghost_p=rng.choice([0.0, 0.3]),
                 # (cell numbers beyond 2**53 at these depths: only variables whose written value does not encode a sign)
                 hydro_vars=["density", "pressure"], grav=False, rt_vars=None)
        p["bound_frac"] = sorted(rng.random() for _ in range(p["ncpu"] - 1))
    leaves = World(p).leaves()
    psel = dict(p, levelmax=max(c["level"] for c in leaves) + 1) if tall else p  # (boxes on the scale of the populated levels)
    sels = [gen_selection(rng, psel, leaves) for _ in range(rng.choice([1, 2, 3]) if not tall else 4)]
    if tall:
        # one box far narrower than any populated cell (a few finest-level cells of the info file wide) around the centre of a leaf
        cell = rng.choice(leaves)
        hw = 2.0 ** -rng.choice([17, 19, 20, p["levelmax"] - 1])
        sels[3] = {"intervals": [{"var": "position_" + c, "lo": cell["pos"][d] / p["boxlen"] - hw * rng.uniform(0.6, 1.0), "hi": cell["pos"][d] / p["boxlen"] + hw * rng.uniform(0.6, 1.0),
                                  "lo_closed": False, "hi_closed": False} for d, c in enumerate("xyz")], "values": [], "cpu_list": None}
        # half of the boxes near the end of the Hilbert curve (x high, y and z low), where the keys are largest
        for s_ in sels[:2]:
            if len(s_["intervals"]) == 3 and all(i_["lo"] is not None and i_["hi"] is not None for i_ in s_["intervals"]):
                for i_, hi_side in zip(s_["intervals"], (True, False, False)):
                    w_ = min(i_["hi"] - i_["lo"], 0.3)
                    a_ = rng.uniform(0.0, 0.2)
                    i_["lo"], i_["hi"] = (1.0 - a_ - w_, 1.0 - a_) if hi_side else (a_, a_ + w_)
    if deep:
        sels = []
        for _ in range(8):
            cube = inv[k0 + rng.randrange(0, ncpu)]
            iv = []
            small = rng.random() < 0.4  # one level-4 cell inside the cube, or most of the cube
            for c, x in zip("xyz", cube):
                if fine_ranks:
                    # starts in the neighbouring leaf (where there is one) and contains this leaf's centre; narrower than a leaf
                    lo = max(0.0, (x - rng.uniform(0.3, 0.45)) / side) if rng.random() < 0.7 else (x + rng.uniform(0.05, 0.2)) / side
                    hi = (x + 0.5 + rng.uniform(0.05, 0.3)) / side
                elif small:
                    h = rng.choice([0.0, 0.5])
                    lo, hi = (x + h + rng.uniform(0.02, 0.1)) / side, (x + h + rng.uniform(0.4, 0.48)) / side  # contains the finest-level centres
                else:
                    lo, hi = (x + rng.uniform(0.02, 0.2)) / side, (x + rng.uniform(0.8, 0.98)) / side
                iv.append({"var": "position_" + c, "lo": lo, "hi": hi, "lo_closed": rng.random() < 0.5, "hi_closed": rng.random() < 0.5})
            sels.append({"intervals": iv, "values": [], "cpu_list": None})
    if deep_edge:
        sels = []
        for _ in range(4):
            iv = []
            for d, c in enumerate("xyz"):
                if d == ax:
                    # (the lower edge lies just below the centre of the finest cell that touches the face)
                    lo, hi = f - rng.uniform(0.6, 0.9) * 2.0 ** -p["levelmax"], f + rng.uniform(0.2, 0.9) * 2.0 ** -(lm + rng.choice([0, 1, 2]))
                else:
                    w_ = rng.uniform(0.3, 0.9) * 2.0 ** -(lm + rng.choice([0, 1, 2]))
                    a_ = rng.random()
                    lo, hi = max(0.0, pt[d] - a_ * w_), min(1.0, pt[d] + (1 - a_) * w_)
                iv.append({"var": "position_" + c, "lo": lo, "hi": hi, "lo_closed": False, "hi_closed": False})
            sels.append({"intervals": iv, "values": [], "cpu_list": None})
    for s in sels:
        s["warm"] = rng.random() < 0.25
        s["on_loaded"] = rng.random() < 0.2
        s["callable"] = rng.choice(CALLABLE_KINDS)
        if not s["on_loaded"] and "level" not in s and rng.random() < 0.15:
            s["after_level"] = {"kind": "le", "k": rng.randrange(1, max(2, p["levelmax"]))}
    return {"world": p, "selections": sels}


def describe(case):
    return case


def execute(case, stats):
    viol = []
    res = {"violations": viol, "nontrivial": False}
    p = case["world"]

    def V(cls, clause, detail, site=None):
        viol.append({"class": cls, "clause": clause, "key": {"class": cls, "clause": clause, "site": site}, "detail": detail})

    with Disk(p) as disk:
        w = disk.world
        try:
            seam0 = FsSeam()
            full, _ = disk.load(seam=seam0)
        except Exception as e:
            import traceback

            V("load-exception", "full", {"error": core.scrub(f"{type(e).__name__}: {e}")[:300], "tb": core.scrub(traceback.format_exc())[-500:]})
            return res
        fv = MeshView(full, w)
        frow = {k: i for i, k in enumerate(fv.keys)}
        leaves = w.leaves()
        stats.inc(f"swarm.ordering={'hilbert' if w.hilbert else 'other'}:ndim={w.ndim}")
        for si, sel in enumerate(case["selections"]):
            preds = sel["intervals"] + sel["values"]
            lv = sel.get("level")
            base = leaves
            capped = False
            if lv is not None:
                acc = [l for l in range(1, w.levelmax + 1) if level_accepts(lv, l)]
                if not acc:
                    continue
                L = max(acc)
                capped = L < w.levelmax
                base = [c for c in w.leaves(lmax=L) if level_accepts(lv, c["level"])]
                stats.inc("probe.selection_with_level_predicate")
            expect = [c for c in base
                      if all(interval_accepts(s, w, c) for s in sel["intervals"]) and all(value_accepts(s, w, c) for s in sel["values"])
                      and (sel["cpu_list"] is None or c["cpu"] in sel["cpu_list"])]
            fsel = {}
            ck = sel.get("callable")
            if ck not in (None, "function"):
                stats.inc("probe.predicates_given_as_" + ck)
            if lv is not None:
                fsel["level"] = as_callable(level_func(lv), ck)
            for s in sel["intervals"]:
                fsel[s["var"]] = as_callable(interval_func(s, w), ck)
            for s in sel["values"]:
                fsel[s["var"]] = as_callable(value_func(s, w), ck)
            kw = {}
            if fsel:
                kw["select"] = {"mesh": fsel}
            if sel["cpu_list"] is not None:
                kw["cpu_list"] = {"list": list, "tuple": tuple, "ndarray": lambda v: np.array(v, dtype=np.int64)}[sel.get("cpu_list_as", "list")](sel["cpu_list"])
                if not sel["cpu_list"]:
                    stats.inc("probe.explicit_cpu_list_that_is_empty")
            site = "cpu_list" if sel["cpu_list"] is not None else ("hilbert-preselection" if (w.hilbert and sel["intervals"]) else "cell-predicates")
            if sel.get("warm") and kw:
                # the caller's argument objects (select dictionary, cpu_list) were already used for a load by another dataset
                stats.inc("probe.argument_objects_used_by_an_earlier_load")
                try:
                    disk.load(**kw)
                except Exception:
                    pass  # the judged load below reports
            ds2 = None
            if sel.get("after_level") and not sel.get("on_loaded"):
                # the dataset object has made a level-capped load before (the cap belongs to that call alone)
                stats.inc("probe.selective_load_on_a_dataset_that_made_a_level_capped_load")
                try:
                    ds2, _ = disk.load(select={"mesh": {"level": level_func(sel["after_level"])}})
                except Exception:
                    ds2 = None
            if sel.get("on_loaded"):
                # the selective load is made on a dataset object that already holds the full load
                stats.inc("probe.selective_load_on_a_dataset_holding_the_full_load")
                try:
                    ds2, _ = disk.load()
                except Exception:
                    ds2 = None
            try:
                seam = FsSeam()
                sub, out = disk.load(ds=ds2, seam=seam, **kw)
            except Exception as e:
                import traceback

                V("load-exception", "selective", {"error": core.scrub(f"{type(e).__name__}: {e}")[:300], "tb": core.scrub(traceback.format_exc())[-500:], "selection": sel}, site)
                break
            nfiles = len({n for n, m in seam.trace if n.startswith("amr_")})
            stats.inc("steps.files_opened", len(seam.trace))
            stats.inc("probe.amr_files_opened_selective", nfiles)
            stats.inc("probe.amr_files_available", w.ncpu)
            if w.hilbert and sel["intervals"] and w.ncpu >= 2 and sel["cpu_list"] is None:
                if nfiles < w.ncpu:
                    res["nontrivial"] = True
                    stats.inc("probe.preselection_excluded_a_rank")
            if sel["cpu_list"] is not None:
                res["nontrivial"] = True
                stats.inc("probe.explicit_cpu_list")
            # boxes smaller than the leaves they select
            if sel["intervals"]:
                width = min((s["hi"] if s["hi"] is not None else 1.0) - (s["lo"] if s["lo"] is not None else 0.0) for s in sel["intervals"])
                if expect and width < max(c["dx"] for c in expect) / w.boxlen:
                    stats.inc("probe.box_smaller_than_a_selected_leaf")
            if not expect:
                n = len(sub["mesh"]["level"]) if "mesh" in sub and "level" in sub["mesh"] else 0
                if n:
                    V("rows", "extra", {"n": n, "expected": 0, "selection": sel}, site)
                stats.inc("probe.selection_with_no_qualifying_cell")
                continue
            for cls, clause, detail in compare_full(sub, w, expect_rows=expect):
                small = None
                if cls == "rows" and clause == "missing" and sel["intervals"]:
                    miss = tuple(detail["first"])
                    cell = next(c for c in expect if (c["level"],) + tuple(c["cidx"]) == miss)
                    width = max((s["hi"] if s["hi"] is not None else 1.0) - (s["lo"] if s["lo"] is not None else 0.0) for s in sel["intervals"]) if len(sel["intervals"]) == w.ndim else 1.0
                    small = bool(width <= 2 * cell["dx"] / w.boxlen)
                V(cls, clause, dict(detail, selection=sel, files_opened=nfiles, ncpu=w.ncpu, box_le_two_leaf_sizes=small), site)
            if viol:
                break
            if capped:
                continue  # rows of a truncated tree are not rows of the full load: judged against the model only
            # exact equality with the rows of the unselected load
            sv = MeshView(sub, w)
            idx = np.array([frow[k] for k in sv.keys], dtype=int)
            for key in sub["mesh"].keys():
                if key not in full["mesh"]:
                    V("differential", "key-not-in-full-load", {"key": key}, site)
                    continue
                for a, b in zip(components(sub["mesh"][key]), components(full["mesh"][key])):
                    if not np.array_equal(np.asarray(a.values), np.asarray(b.values)[idx]) or a.unit != b.unit:
                        V("differential", "values-differ-from-full-load", {"key": key, "selection": sel}, site)
                        break
            if viol:
                break
    res["signature"] = core.digest(case)[:20]
    return res


def measure(case):
    p = case["world"]
    sels = case["selections"]
    return (len(sels), p["ncpu"], p["levelmax"], sum(len(s["intervals"]) + len(s["values"]) + (1 if s["cpu_list"] else 0) + (1 if s.get("after_level") else 0) for s in sels),
            p["maxcells"], len(p["hydro_vars"]) + sum(1 for s in sels if s.get("level")), int(bool(p["grav"])) + int(bool(p["rt_vars"])) + int(p["sink"] is not None), p["nboundary"],
            int(p["units"] != [1.0, 1.0, 1.0]), int(p["ghost_p"] * 10), p["noutput"], int(p["key_quad"]), p["levelmin"], sum(1 for s in sels if s.get("warm")) + sum(1 for s in sels if s.get("on_loaded")) + sum(1 for s in sels if s.get("callable") not in (None, "function")))


def reductions(case, viol):
    sels = case["selections"]
    if len(sels) > 1:
        for i in range(len(sels)):
            yield dict(case, selections=[sels[i]])
    for q in world_reductions(case["world"]):
        if q["ndim"] != case["world"]["ndim"]:
            continue
        ok = True
        for s in sels:
            if any(v["var"] != "dx" and v["var"] not in q["hydro_vars"] for v in s["values"]):
                ok = False
            if s["cpu_list"] and max(s["cpu_list"]) > q["ncpu"]:
                ok = False
        if ok and q["levelmax"] == case["world"]["levelmax"]:
            yield dict(case, world=q)
    for i, s in enumerate(sels):
        for j in range(len(s["intervals"])):
            if len(s["intervals"]) + len(s["values"]) > 1 or s["cpu_list"]:
                yield dict(case, selections=sels[:i] + [dict(s, intervals=s["intervals"][:j] + s["intervals"][j + 1:])] + sels[i + 1:])
        if s["values"]:
            yield dict(case, selections=sels[:i] + [dict(s, values=[])] + sels[i + 1:])
        if s.get("level"):
            d = dict(s)
            del d["level"]
            yield dict(case, selections=sels[:i] + [d] + sels[i + 1:])
        if s["cpu_list"] and (s["intervals"] or s["values"]):
            yield dict(case, selections=sels[:i] + [dict(s, cpu_list=None)] + sels[i + 1:])
        if s.get("warm"):
            yield dict(case, selections=sels[:i] + [dict(s, warm=False)] + sels[i + 1:])
        if s.get("on_loaded"):
            yield dict(case, selections=sels[:i] + [dict(s, on_loaded=False)] + sels[i + 1:])
        if s.get("after_level"):
            yield dict(case, selections=sels[:i] + [{k: v for k, v in s.items() if k != "after_level"}] + sels[i + 1:])
        if s.get("callable") not in (None, "function"):
            yield dict(case, selections=sels[:i] + [dict(s, callable="function")] + sels[i + 1:])
