"""C05 -- histogram2d bins every point exactly once, for any thread schedule.

Engine K: the real `osyris.histogram2d` front-end runs with the `hist2d` kernel
replaced (seam S1) by its own source executed under the simulated parallel
runtime.  Oracle: an independent sequential reference histogram computed from
the *user-level* inputs (DESIGN.md section 3, C05).
"""
import importlib
import math
import sys
import warnings

import numpy as np

from sim import core
from sim.core import HarnessError
from sim.kseam import Seam, compiled_call, kernel, same_results
from sim.parsim import KernelError, Sim, analyse_dry_run, draw_schedule_config

PROPERTY = "C05"
ENGINE = "K"
DEFAULT_SEED = 5005
RUNS = {"quick": 2400, "thorough": 120000}
JOBS = {"quick": 8, "thorough": 16}
SEARCH_SPACE = "point sets x limits/axes/layers x (thread count, partition, interleaving of every load/store of the kernel's output arrays)"
RULE = ("one run = one workload (points, limits, lin/log axes, resolution, value layers) executed through the real "
        "histogram2d front-end twice: simulated T=1 and simulated T workers under a seeded schedule (in half of the runs a third call passes the very same Layer/Array objects again with another call-level operation); distinct = hash of "
        "(workload, conflict signature); non-trivial = at least two simulated workers touched the same output element, "
        "or (T=1 runs) at least one point lies within one bin width of a limit")
ASSUMPTIONS = [
    "kernel source executed by CPython with numba's int() semantics; parfor lowering, OpenMP and the hardware memory model are stubbed by a sequentially-consistent baton scheduler (every simulated outcome is a possible real outcome)",
    "compiled kernel at one numba thread must equal simulated T=1 bit for bit (checked on a sample every batch)",
    "points within 1e-11 (relative, in bin units) of a bin edge may fall on either side; a point exactly on the lower limit belongs to bin 0",
    "summation order inside a bin is unspecified: sums compared with tolerance 64 ulp x sum|v|",
    "a float32 value layer may be accumulated in float32 (judged at 64 float32 ulps); coordinates are float64 or integers (single-precision coordinates were tried and withdrawn, DESIGN 9.15)",
    "the large-input runs of the anchor are direct executions of the compiled kernel (one numba thread; one stress run with all threads whose record is coarse on purpose)",
    "where a layer holds a NaN or an infinity for a point, the value of that layer in the bin of that point is not judged (a non-finite result and a sum that skips such values are both accepted); every other layer is judged as usual",
]
REAL_STUB = {
    "real": ["osyris.histogram2d front-end", "parse_layer / Layer", "Array/Vector", "unit handling", "hist2d kernel source (executed by CPython)"],
    "stub": ["numba parfor lowering + threading layer + OpenMP + CPU memory model (baton scheduler, SC element-level loads/stores)"],
}
MODNAME = "osyris.plot.histogram2d"
KATTR = "hist2d"
EDGE_TOL = 1e-11


def prepare(tier):
    warnings.filterwarnings("ignore")
    importlib.import_module("osyris")
    kernel(MODNAME, KATTR)


# --------------------------------------------------------------------------
# generation


def _fl(v):
    return float(v)


def gen_axis(rng, n, res):
    """Returns dict(log, lo, hi (explicit or None), pts)."""
    log = rng.random() < 0.3
    if log:
        a = rng.choice([1e-3, 0.5, 1.0, 7.0, 1e4])
        b = a * rng.choice([1.5, 10.0, 1e3, 1e6])
        t_lo, t_hi = math.log10(a), math.log10(b)
    else:
        a = rng.choice([-10.0, -1.0, 0.0, 0.0, 0.25, 3.0, 1e5])
        b = a + rng.choice([1e-3, 0.5, 1.0, 1.0, 2.0, 10.0, 1e4])
        t_lo, t_hi = a, b
    bw = (t_hi - t_lo) / res
    kind = rng.choice(["onebin", "fewbins", "uniform", "uniform", "edges", "mixed", "ulps"])
    pts = []
    for _ in range(n):
        k = kind if kind != "mixed" else rng.choice(["onebin", "fewbins", "uniform", "edges"])
        if k == "ulps" and abs(t_hi) < 1e-6:
            k = "onebin"  # a range of a few *denormal* ulps around zero underflows in any arithmetic: not generated
        if k == "ulps":
            # values that differ only in their last bits (a range a few ulps wide, but not degenerate)
            t = float(np.nextafter(t_hi, np.inf if rng.random() < 0.5 else -np.inf)) if rng.random() < 0.5 else t_hi
            for _ in range(rng.randrange(0, 4)):
                t = float(np.nextafter(t, np.inf))
        elif k == "onebin":
            t = t_lo + (int(res * 0.6) + 0.3 + 0.4 * rng.random()) * bw if res > 1 else t_lo + (0.3 + 0.4 * rng.random()) * bw
        elif k == "fewbins":
            t = t_lo + (rng.randrange(min(res, 3)) + 0.1 + 0.8 * rng.random()) * bw
        elif k == "uniform":
            t = t_lo + rng.random() * (t_hi - t_lo)
        else:
            d = rng.choice([1e-13, 0.01, 0.5, 0.99, 1.5])
            t = rng.choice([t_lo - d * bw, t_lo, t_lo + d * bw, t_hi - d * bw, t_hi, t_hi + d * bw,
                            t_lo + rng.randrange(res + 1) * bw])
        pts.append(10.0 ** t if log else t)
    # non-finite / non-loggable entries
    if n and rng.random() < 0.25:
        for _ in range(rng.randrange(1, 3)):
            pts[rng.randrange(n)] = rng.choice([float("nan"), float("inf"), float("-inf")] + ([0.0, -1.0] if log else []))
    lo = (10.0 ** t_lo if log else t_lo) if rng.random() < 0.6 else None
    hi = (10.0 ** t_hi if log else t_hi) if rng.random() < 0.6 else None
    base = [10.0 ** t_lo, 10.0 ** t_hi] if log else [t_lo, t_hi]
    return {"log": log, "lo": lo, "hi": hi, "pts": [_fl(p) for p in pts], "base": base}


def _finite_t(ax):
    with np.errstate(all="ignore"):
        p = np.array(ax["pts"], dtype=float)
        t = np.log10(p) if ax["log"] else p
    return t[np.isfinite(t)]


def generate(rng, tier):
    big = tier == "thorough"
    n = rng.choice([0, 1, 2, 2, 3, 4, 6, 8, 12, 16, 24] + ([40, 80, 200] if big else [32]))
    res = rng.choice([1, 2, 2, 3, 4, 5, 8, 16])
    ax, ay = gen_axis(rng, n, res), gen_axis(rng, n, res)
    for a in (ax, ay):
        # automatic limits need at least one finite (transformed) coordinate
        if len(_finite_t(a)) == 0:
            a["lo"], a["hi"] = a["base"]
    xdtype = "f8"
    if not ax["log"] and rng.random() < 0.08:
        # integer coordinates (a level, a rank number): explicit limits may still be fractional (-0.5 ... 9.5)
        xdtype = rng.choice(["i8", "i4"])
        k = rng.choice([1.0, 10.0, 100.0])
        ax["pts"] = [float(round(v * k)) if math.isfinite(v) else float(round(ax["base"][0] * k)) for v in ax["pts"]]
        ax["base"] = [ax["base"][0] * k, ax["base"][1] * k]
        for side in ("lo", "hi"):
            if ax[side] is not None:
                ax[side] = _fl(math.floor(ax[side] * k) + rng.choice([0.5, 0.5, 0.25, 0.0]))
        if ax["lo"] is not None and ax["hi"] is not None and not ax["hi"] > ax["lo"]:
            ax["hi"] = ax["lo"] + 1.0
    for a in (ax, ay):
        # explicit limits given with a unit (a Quantity), in the unit of the axis or in a compatible one
        if (a["lo"] is not None or a["hi"] is not None) and rng.random() < 0.12:
            a["q"] = rng.choice(["same", "other"])
    layers = []
    for _ in range(rng.choice([0, 0, 1, 1, 2, 3])):
        layers.append({
            "values": [_fl(rng.choice([1.0, 0.5, -2.0, 3.25, 1e-3, 1e6]) * (1 + rng.randrange(8))) if rng.random() < 0.7 else _fl(rng.uniform(-5, 5)) for _ in range(n)],
            "op": rng.choice([None, None, "sum", "mean"]),
            "unit": rng.choice(["", "g", "cm/s", "K"]),
            "vector": rng.random() < 0.1,
            # layers of one call may have different dtypes (an integer quantity such as the level next to a float one)
            "dtype": rng.choice(["f8", "f8", "f8", "f8", "f4", "i8", "i4"]),
        })
        l = layers[-1]
        if l["vector"]:
            l["dtype"] = "f8"
        if l["dtype"] == "f4":
            l["values"] = [float(np.float32(v)) for v in l["values"]]
        elif l["dtype"] in ("i8", "i4"):
            l["values"] = [float(int(round(v))) for v in l["values"]]
        if l["dtype"] in ("f8", "f4") and n and rng.random() < 0.15:
            # a quantity that is undefined for some points (NaN, +-inf): its own bins are not judged there, every other layer is
            for i in rng.sample(range(n), min(n, rng.choice([1, 1, 2, 3]))):
                l["values"][i] = rng.choice([float("nan"), float("nan"), float("inf"), float("-inf")])
    # several layers may show the very same Array object with different operations (image + contours of one quantity)
    for k in range(1, len(layers)):
        if rng.random() < 0.3:
            src = rng.randrange(k)
            if not layers[src].get("vector"):
                layers[k] = dict(layers[k], values=list(layers[src]["values"]), unit=layers[src]["unit"], vector=False, same_as=src, dtype=layers[src]["dtype"])
    case = {
        "n": n, "res": res, "x": ax, "y": ay, "layers": layers,
        "call_op": rng.choice([None, "sum", "mean"]),
        "xunit": rng.choice(["", "cm", "g/cm**3"]),
        "loglog": bool(ax["log"] and ay["log"] and rng.random() < 0.5),
        "sched": draw_schedule_config(rng, maxT=8),
        # tuning knobs of the kernel (integer literals >= 64, e.g. chunk sizes) divided by this in the simulated runs
        "knob": rng.choice([None, None, 1024, 4096, 16384]),
        # a second call that re-uses the very same Layer/Array objects with another call-level operation
        "second_op": rng.choice([None, None, "sum", "mean"]),
        # an earlier call on the same objects with other contents; the caller refills the buffers in place
        "prior": rng.random() < 0.2,
        "later": rng.random() < 0.1,
        # (single-precision coordinates were tried and withdrawn: the front-end transforms and compares them in single precision,
        #  and what "inside the range" means within float32 rounding of an edge is not something the statement settles)
        "xdtype": xdtype,
    }
    return case


def describe(case):
    if case.get("large"):
        return case
    d = {k: v for k, v in case.items() if k not in ("x", "y", "layers")}
    d["x"] = {k: (v if k != "pts" else v[:6]) for k, v in case["x"].items()}
    d["y"] = {k: (v if k != "pts" else v[:6]) for k, v in case["y"].items()}
    d["layers"] = [{"op": l["op"], "unit": l["unit"], "values": l["values"][:4]} for l in case["layers"]]
    if "decisions" in d:
        d["decisions"] = d["decisions"][:40]
    return d


# --------------------------------------------------------------------------
# execution


_LAST = {}
DT = {"f8": np.float64, "f4": np.float32, "i8": np.int64, "i4": np.int32}


def call_frontend(case, sim_factory, reuse=None, call_op="__case__"):
    """`reuse`: (x, y, layers) objects of an earlier call to pass again; `call_op` overrides the call-level operation."""
    import osyris

    if reuse is not None:
        x, y, layers = reuse
        kw = frontend_kwargs(case, case["call_op"] if call_op == "__case__" else call_op)
        with Seam(MODNAME, KATTR, sim_factory, knob_scale=case.get("knob")) as seam:
            with np.errstate(all="ignore"):
                plot = osyris.histogram2d(x, y, *layers, **kw)
        return plot, seam.calls

    prior = bool(case.get("prior")) and case["n"] > 0
    # coordinates may be stored in single precision (the values are then the rounded ones)
    xv = np.array(case["x"]["pts"], dtype=DT[case.get("xdtype", "f8")])
    yv = np.array(case["y"]["pts"], dtype=float)
    x = osyris.Array(values=xv[::-1].copy() if prior else xv, unit=case["xunit"], name="xq")
    y = osyris.Array(values=yv.copy() if prior else yv, unit="", name="yq")
    if prior:
        # (other contents means another range too: what an earlier call learnt about the coordinates must not be reused)
        with np.errstate(all="ignore"):
            x.values[...] = (x.values * 3).astype(x.values.dtype)
            y.values[...] = y.values * 0.25
    layers = []
    datas = []
    for i, l in enumerate(case["layers"]):
        v = np.array(l["values"], dtype=DT[l.get("dtype", "f8")])
        if prior:
            v = (2 * v + 1).astype(v.dtype)
        if l.get("same_as") is not None and l["same_as"] < len(datas):
            data = datas[l["same_as"]]  # the same object
        elif l.get("vector"):
            data = osyris.Vector(x=v, y=np.zeros_like(v), unit=l["unit"], name=f"lay{i}")
        else:
            data = osyris.Array(values=v, unit=l["unit"], name=f"lay{i}")
        datas.append(data)
        # bare Arrays are accepted as layers; Vectors only inside a Layer
        layers.append(osyris.core.Layer(data, operation=l["op"]) if (l["op"] is not None or i % 2 or l.get("vector")) else data)
    kw = frontend_kwargs(case, case["call_op"] if call_op == "__case__" else call_op)
    if prior:
        # an earlier (unjudged) call on the same objects, which the caller then refills in place with the data of this case
        with Seam(MODNAME, KATTR, lambda: Sim(T=1)):
            with np.errstate(all="ignore"):
                try:
                    osyris.histogram2d(x, y, *layers, **kw)
                except Exception:
                    pass
        x.values[...] = xv
        y.values[...] = yv
        done = set()
        for l, data in zip(case["layers"], datas):
            if id(data) in done:
                continue
            done.add(id(data))
            (data.x if l.get("vector") else data).values[...] = np.array(l["values"], dtype=DT[l.get("dtype", "f8")])
    with Seam(MODNAME, KATTR, sim_factory, knob_scale=case.get("knob")) as seam:
        with np.errstate(all="ignore"):
            plot = osyris.histogram2d(x, y, *layers, **kw)
    _LAST["objects"] = (x, y, layers)
    return plot, seam.calls


OTHER_UNIT = {"cm": ("m", 0.01), "g/cm**3": ("kg/m**3", 1000.0), "": ("percent", 100.0)}


def _limit(val, q, unit):
    """An explicit limit as a bare number, or as a Quantity in the unit of the axis ("same") or in a compatible unit ("other",
    only when the conversion back to the axis unit returns the very same number)."""
    if not q:
        return val
    import osyris

    if q == "other":
        other, fac = OTHER_UNIT[unit]
        Q = (val * fac) * osyris.units(other)
        if float(Q.to(osyris.units(unit)).magnitude) == val:
            return Q
    return val * osyris.units(unit)


def frontend_kwargs(case, call_op):
    kw = {"resolution": case["res"], "plot": False}
    if case.get("loglog"):
        kw["loglog"] = True
    else:
        kw["logx"], kw["logy"] = case["x"]["log"], case["y"]["log"]
    for name, a in (("x", case["x"]), ("y", case["y"])):
        if a["lo"] is not None:
            kw[name + "min"] = _limit(a["lo"], a.get("q"), case["xunit"] if name == "x" else "")
        if a["hi"] is not None:
            kw[name + "max"] = _limit(a["hi"], a.get("q"), case["xunit"] if name == "x" else "")
    if call_op is not None:
        kw["operation"] = call_op
    return kw


def make_sim(case, dry):
    s = case["sched"]
    if dry is None:
        return Sim(T=1, record=True)
    T = s["T"]
    if "decisions" in case:
        return Sim(T=T, partition=s["partition"], decisions=case["decisions"])
    rng = core.rng_for(s["sched_seed"], "sched")
    pol = dict(s["policy"])
    touches, cont = ({}, {})
    if T > 1:
        touches, cont = analyse_dry_run(dry, T, s["partition"])
        pol["est_events"] = max(1, dry.nevents)
    return Sim(T=T, partition=s["partition"], policy=pol, rng=rng, contenders=cont, touches=touches)


def reference(case, grid):
    """Sequential reference histogram on the user-level inputs, in the claimed grid.
    Returns per-point candidate bins, lower/upper counts."""
    res = case["res"]
    out = []
    with np.errstate(all="ignore"):
        tx = np.array(case["x"]["pts"], dtype=DT[case.get("xdtype", "f8")]).astype(float)
        ty = np.array(case["y"]["pts"], dtype=float)
        if case["x"]["log"]:
            tx = np.log10(tx)
        if case["y"]["log"]:
            ty = np.log10(ty)

    def axis_opts(t, lo, hi, n, tol=EDGE_TOL):
        if not np.isfinite(t):
            return [None]
        bw = (hi - lo) / n
        if not (np.isfinite(bw) and bw > 0):
            return [None]  # no valid grid: reported by the grid clause
        if t == lo and tol == EDGE_TOL:
            return [0]
        f = (t - lo) / bw
        r = round(f)
        if abs(f - r) <= tol * max(1.0, abs(f)):
            opts = []
            for c in (r - 1, r):
                opts.append(c if 0 <= c < n else None)
            return sorted(set(opts), key=lambda v: (v is None, v))
        c = math.floor(f)
        return [c if 0 <= c < n else None]

    for i in range(case["n"]):
        ox = axis_opts(tx[i], grid["xmin"], grid["xmax"], grid["nx"], grid.get("xtol", EDGE_TOL))
        oy = axis_opts(ty[i], grid["ymin"], grid["ymax"], grid["ny"], grid.get("ytol", EDGE_TOL))
        opts = set()
        for a in ox:
            for b in oy:
                opts.add(None if (a is None or b is None) else (b, a))
        out.append(opts)
    return out, tx, ty


def derive_grid(case, plot):
    """Grid claimed to the user, from the returned bin centres (and explicit limits for single-bin axes)."""
    g = {}
    for name, cen, ax in (("x", plot.x, case["x"]), ("y", plot.y, case["y"])):
        c = np.asarray(cen, dtype=float)
        n_ = len(c)
        ulo = None if ax["lo"] is None else (math.log10(ax["lo"]) if ax["log"] else ax["lo"])
        uhi = None if ax["hi"] is None else (math.log10(ax["hi"]) if ax["log"] else ax["hi"])
        if n_ >= 2:
            if ax["log"]:
                if not np.all(c > 0):
                    return None
                w = math.log10(c[1] / c[0])
                # centres of a logarithmic grid are the arithmetic means of the edges: c_k = 10**e_k * (1 + 10**w) / 2
                lo = math.log10(c[0] / (0.5 * (1.0 + 10.0 ** w)))
            else:
                w = c[1] - c[0]
                lo = c[0] - 0.5 * w
            hi = lo + n_ * w
        else:
            if ulo is not None and uhi is not None:
                lo, hi = ulo, uhi
            else:
                return None
        if not (np.isfinite(lo) and np.isfinite(hi)):
            return None
        # explicit limits are exact; derived ones carry the rounding of the centres (ill-conditioned for narrow ranges far from 0)
        wbin = (hi - lo) / n_
        if ulo is not None and abs(lo - ulo) <= 1e-6 * abs(wbin):
            lo = ulo
        if uhi is not None and abs(hi - uhi) <= 1e-6 * abs(wbin):
            hi = uhi
        if not hi > lo:
            return None
        with np.errstate(all="ignore"):
            mag = float(np.max(np.abs(np.log10(c) if ax["log"] else c)))
        g[name + "min"], g[name + "max"], g["n" + name] = float(lo), float(hi), n_
        g[name + "tol"] = 1e-11 + 16 * np.finfo(float).eps * max(mag, abs(lo), abs(hi)) / ((hi - lo) / n_)
    return g


def execute_large(case, stats):
    """Lengths the simulator cannot reach (the statement says: up to millions of points): the shipped front-end and the
    compiled kernel, one numba thread (deterministic), against a vectorised numpy reference.  Points lie strictly
    inside their bins and the values are small integers, so counts and sums are exact."""
    import numba
    import osyris

    lg = case["large"]
    n, res_, seed = lg["n"], lg["res"], lg["seed"]
    viol = []
    out = {"violations": viol, "nontrivial": True, "signature": "large:%d:%d" % (n, seed)}
    if lg.get("onebin"):
        # more than 2**24 points in one bin, single-precision coordinates, default layer: the count of a bin is exact at any size
        g = np.random.default_rng(seed)
        x = g.uniform(2.2, 4.8, n).astype(np.float32)
        y = g.uniform(-0.5, 2.5, n).astype(np.float32)
        old = numba.get_num_threads()
        numba.set_num_threads(1)
        try:
            with np.errstate(all="ignore"):
                plot = osyris.histogram2d(osyris.Array(values=x, unit="cm", name="xq"), osyris.Array(values=y, unit="", name="yq"),
                                          resolution=1, xmin=2.0, xmax=5.0, ymin=-1.0, ymax=3.0, plot=False)
        except Exception as e:
            viol.append({"class": "frontend-exception", "clause": "large", "key": {"effect": type(e).__name__, "when": "large-onebin"}, "detail": {"error": f"{type(e).__name__}: {e}"[:300], "n": n}})
            return out
        finally:
            numba.set_num_threads(old)
        stats.inc("probe.large_input_one_bin_above_2pow24")
        got = float(np.ma.getdata(plot.layers[0]["data"]).ravel()[0])
        if got != float(n) or bool(np.ma.getmaskarray(plot.layers[0]["data"]).ravel()[0]):
            viol.append({"class": "counts", "clause": "large-onebin", "key": {"effect": "total", "when": "large-onebin"}, "detail": {"n": n, "got": got}})
        return out
    g = np.random.default_rng(seed)
    bx, by = g.integers(0, res_, n), g.integers(0, res_, n)
    x = 2.0 + (bx + g.uniform(0.1, 0.9, n)) * (3.0 / res_)
    y = -1.0 + (by + g.uniform(0.1, 0.9, n)) * (4.0 / res_)
    v = g.integers(-3, 9, n).astype(float)
    counts = np.bincount(by * res_ + bx, minlength=res_ * res_).reshape(res_, res_)
    sums = np.bincount(by * res_ + bx, weights=v, minlength=res_ * res_).reshape(res_, res_)
    old = numba.get_num_threads()
    allthreads = lg.get("threads") == "all"
    # one thread: deterministic.  "all": a stress run with real threads for paths that are both size-gated and parallel;
    # its record is deliberately coarse (no numbers that vary from run to run), it can show a race but never its absence
    numba.set_num_threads(numba.config.NUMBA_NUM_THREADS if allthreads else 1)
    try:
        with np.errstate(all="ignore"):
            plot = osyris.histogram2d(osyris.Array(values=x, unit="cm", name="xq"), osyris.Array(values=y, unit="", name="yq"),
                                      osyris.core.Layer(osyris.Array(values=v, unit="g", name="s"), operation="sum"),
                                      osyris.core.Layer(osyris.Array(values=v.copy(), unit="g", name="m"), operation="mean"),
                                      resolution=res_, xmin=2.0, xmax=5.0, ymin=-1.0, ymax=3.0, plot=False)
    except Exception as e:
        viol.append({"class": "frontend-exception", "clause": "large", "key": {"effect": type(e).__name__, "when": "large"}, "detail": {"error": f"{type(e).__name__}: {e}"[:300], "n": n}})
        return out
    finally:
        numba.set_num_threads(old)
    stats.inc("probe.large_input_compiled_run" + ("_all_threads" if allthreads else ""))
    if allthreads:
        s_got = np.ma.getdata(plot.layers[0]["data"])
        mask = np.ma.getmaskarray(plot.layers[0]["data"])
        if np.any(mask != (counts == 0)) or not np.array_equal(np.where(mask, 0.0, s_got), sums):
            viol.append({"class": "values", "clause": "large-all-threads", "key": {"effect": "sum", "when": "large-all-threads"},
                         "detail": {"n": n, "threads": int(numba.config.NUMBA_NUM_THREADS), "note": "sums per bin differ from the exact reference when the kernel runs on all numba threads"}})
        return out
    stats.inc("steps.points_binned_by_compiled_kernel", n)
    s_got = np.ma.getdata(plot.layers[0]["data"])
    m_got = np.ma.getdata(plot.layers[1]["data"])
    mask = np.ma.getmaskarray(plot.layers[0]["data"])
    got_counts = np.where(mask, 0, np.rint(np.where(m_got != 0, s_got / np.where(m_got != 0, m_got, 1.0), 0.0)))
    with np.errstate(all="ignore"):
        want_mean = np.where(counts > 0, sums / np.maximum(counts, 1), 0.0)
    if np.any(mask != (counts == 0)):
        viol.append({"class": "mask", "clause": "large", "key": {"effect": "mask", "when": "large"}, "detail": {"n": n, "bins_differing": int(np.sum(mask != (counts == 0)))}})
    elif not np.array_equal(np.where(mask, 0.0, s_got), sums):
        b = np.argwhere(np.where(mask, 0.0, s_got) != sums)[0].tolist()
        viol.append({"class": "values", "clause": "large", "key": {"effect": "sum", "when": "large"},
                     "detail": {"n": n, "bin": b, "got": float(s_got[tuple(b)]), "want": float(sums[tuple(b)]), "total_got": float(np.where(mask, 0.0, s_got).sum()), "total_want": float(sums.sum())}})
    elif not np.allclose(np.where(mask, 0.0, m_got), want_mean, rtol=1e-12, atol=0):
        b = np.argwhere(~np.isclose(np.where(mask, 0.0, m_got), want_mean, rtol=1e-12, atol=0))[0].tolist()
        viol.append({"class": "values", "clause": "large", "key": {"effect": "mean", "when": "large"}, "detail": {"n": n, "bin": b, "got": float(m_got[tuple(b)]), "want": float(want_mean[tuple(b)])}})
    return out


def execute(case, stats):
    if case.get("large"):
        return execute_large(case, stats)
    viol = []
    res = {"violations": viol, "nontrivial": False}
    n = case["n"]

    def V(cls, clause, key, detail):
        viol.append({"class": cls, "clause": clause, "key": key, "detail": detail})

    # ---- run 1: simulated T=1 (recorded) ; run 2: scheduled
    runs = []
    dry_sim = None
    for phase in ("t1", "sched"):
        holder = []

        def factory():
            s = make_sim(case, None if phase == "t1" else dry_sim)
            holder.append(s)
            return s

        try:
            plot, calls = call_frontend(case, factory)
        except KernelError as e:
            V("kernel-exception", phase, {"effect": "kernel-raised"}, {"error": str(e)[:300]})
            return res
        except HarnessError:
            raise
        except Exception as e:
            V("frontend-exception", phase, {"effect": type(e).__name__}, {"error": f"{type(e).__name__}: {e}"[:300]})
            return res
        if len(calls) != 1:
            # the front-end does not go through the hist2d seam (as it is known here): nothing to schedule;
            # judge the returned Plot at user level only (grid derived from the returned bin centres)
            stats.inc("probe.kernel_seam_not_used")
            calls = [{"args": None, "result": None, "sim": Sim(T=1)}]
        runs.append((plot, calls[0]))
        if phase == "t1":
            dry_sim = calls[0]["sim"]
            if case["sched"]["T"] == 1 and "decisions" not in case:
                runs.append(runs[0])
                break
    (p1, c1), (p2, c2) = runs
    sim2 = c2["sim"]
    stats.inc("steps.memory_events", c1["sim"].nevents + (sim2.nevents if sim2 is not c1["sim"] else 0))
    stats.inc("steps.context_switches", sim2.switches)
    stats.inc(f"swarm.T={case['sched']['T']}")
    stats.inc(f"swarm.partition={case['sched']['partition']['kind']}")
    stats.inc(f"swarm.scheduler={case['sched']['policy']['kind'] if 'decisions' not in case else 'replay'}")
    sig, nshared = sim2.conflict_signature()
    if nshared:
        stats.add("conflict_signatures", sig)  # distinct orders of (worker, load|store) on elements touched by >= 2 workers
    for k, v in sim2.probe.items():
        stats.inc("probe." + k, v)
    res["decisions"] = sim2.decisions
    res["sim_T1_args"] = c1["args"]

    # ---- claimed grid (what the front-end asked the kernel for)
    a = c1["args"]
    try:
        grid = {k: float(a[k]) for k in ("xmin", "xmax", "ymin", "ymax")}
        grid["nx"], grid["ny"] = int(a["nx"]), int(a["ny"])
    except (KeyError, TypeError):
        # kernel signature unknown (or seam unused): derive the grid from what the user gets back
        grid = derive_grid(case, p1)
        c1 = dict(c1, result=None)
        c2 = dict(c2, result=None) if c2 is not runs[0][1] else c1
        stats.inc("probe.grid_derived_from_returned_centres")
        if grid is None:
            stats.inc("ambig.grid_not_observable")
            res["signature"] = None
            return res
    wl = core.digest({k: case[k] for k in ("n", "res", "x", "y", "layers", "call_op", "loglog")})[:16]
    res["signature"] = wl + ":" + sig

    if case.get("xdtype", "f8") == "f4":
        # single-precision coordinates: the front-end may transform and compare them in single precision; a point within a
        # few float32 ulps of a bin edge may fall on either side
        bw_ = (grid["xmax"] - grid["xmin"]) / max(1, grid["nx"])
        if np.isfinite(bw_) and bw_ > 0:
            grid["xtol"] = max(grid.get("xtol", EDGE_TOL), 32 * float(np.finfo(np.float32).eps) * max(1.0, abs(grid["xmin"]), abs(grid["xmax"])) / bw_)
        stats.inc("probe.single_precision_coordinates")
    opts, tx, ty = reference(case, grid)
    # ---- grid clauses
    for name, ax, t in (("x", case["x"], tx), ("y", case["y"], ty)):
        lo, hi = grid[name + "min"], grid[name + "max"]
        fin = t[np.isfinite(t)]
        ulo = None if ax["lo"] is None else (math.log10(ax["lo"]) if ax["log"] else ax["lo"])
        uhi = None if ax["hi"] is None else (math.log10(ax["hi"]) if ax["log"] else ax["hi"])
        # a requested limit that leaves no room for the automatic other side (all data at or beyond it)
        # is a degenerate request: the front-end widens it; not judged
        tol_d = 1e-12 * max(1.0, abs(ulo or 0.0), abs(uhi or 0.0))  # np.log10 and math.log10 may differ in the last bit
        if name == "x" and case.get("xdtype", "f8") == "f4":
            tol_d = 1e-6 * max(1.0, abs(ulo or 0.0), abs(uhi or 0.0))  # single-precision data: a range of a few float32 ulps is degenerate
        degenerate = ((ulo is not None and uhi is None and (len(fin) == 0 or fin.max() <= ulo + tol_d)) or
                      (uhi is not None and ulo is None and (len(fin) == 0 or fin.min() >= uhi - tol_d)))
        # (all data equal with two automatic limits is *not* degenerate for the oracle: the front-end has to widen the
        #  range so that the points are still counted exactly once)
        if not (np.isfinite(lo) and np.isfinite(hi) and hi > lo):
            if degenerate:
                stats.inc("ambig.degenerate_requested_range")
                res["signature"] = None
                return res
            V("grid", "range", {"effect": "degenerate-range"}, {"axis": name, "lo": lo, "hi": hi})
            return res
        if degenerate:
            stats.inc("ambig.degenerate_requested_range")
        for side, user, got in (("min", ax["lo"], lo), ("max", ax["hi"], hi)):
            if degenerate:
                break
            if user is not None:
                want = math.log10(user) if ax["log"] else user
                if abs(got - want) > 1e-12 * max(1.0, abs(want)):
                    V("grid", "explicit-limit", {"effect": "explicit-limit-not-used"}, {"axis": name, "side": side, "want": want, "got": got})
        fin = t[np.isfinite(t)]
        if len(fin) and not degenerate:
            if ax["lo"] is None and not fin.min() >= lo:
                V("grid", "auto-range", {"effect": "auto-range-excludes-data"}, {"axis": name, "lo": lo, "min": float(fin.min())})
            if ax["hi"] is None and not fin.max() < hi:
                V("grid", "auto-range", {"effect": "auto-range-excludes-data"}, {"axis": name, "hi": hi, "max": float(fin.max())})
    if grid["nx"] != case["res"] or grid["ny"] != case["res"]:
        V("grid", "resolution", {"effect": "resolution"}, {"nx": grid["nx"], "ny": grid["ny"], "want": case["res"]})
        return res
    nx, ny = grid["nx"], grid["ny"]
    # bin centres returned to the user lie inside their bins
    for name, cen, ax in (("x", p1.x, case["x"]), ("y", p1.y, case["y"])):
        lo, hi = grid[name + "min"], grid[name + "max"]
        cen = np.asarray(cen, dtype=float)
        nn = nx if name == "x" else ny
        if cen.shape != (nn,):
            V("grid", "centres", {"effect": "centres-shape"}, {"axis": name, "shape": list(cen.shape)})
            continue
        with np.errstate(all="ignore"):
            tc = np.log10(cen) if ax["log"] else cen
        edges = lo + (hi - lo) * np.arange(nn + 1) / nn
        tolc = 1e-9 * max(1.0, abs(lo), abs(hi))
        if not (np.all(tc >= edges[:-1] - tolc) and np.all(tc <= edges[1:] + tolc)):
            V("grid", "centres", {"effect": "centres-outside-bins"}, {"axis": name, "centres": cen.tolist()[:8], "edges": edges.tolist()[:9]})

    # ---- reference counts
    lower = np.zeros((ny, nx), dtype=np.int64)
    upper = np.zeros((ny, nx), dtype=np.int64)
    amb_bins = np.zeros((ny, nx), dtype=bool)
    n_def_in = n_amb = 0
    near_limit = False
    for i, o in enumerate(opts):
        if len(o) == 1:
            (b,) = o
            if b is not None:
                lower[b] += 1
                upper[b] += 1
                n_def_in += 1
        else:
            n_amb += 1
            for b in o:
                if b is not None:
                    upper[b] += 1
                    amb_bins[b] = True
    for t, lo, hi, nn in ((tx, grid["xmin"], grid["xmax"], nx), (ty, grid["ymin"], grid["ymax"], ny)):
        f = t[np.isfinite(t)]
        bw = (hi - lo) / nn
        if len(f) and (np.any(np.abs(f - lo) < bw) or np.any(np.abs(f - hi) < bw)):
            near_limit = True
    stats.inc("ambig.points_on_bin_edge", n_amb)
    if n_amb:
        stats.inc("ambig.runs_with_edge_points")
    res["nontrivial"] = bool(nshared > 0 or (case["sched"]["T"] == 1 and near_limit))
    if near_limit:
        stats.inc("probe.point_within_one_bin_of_limit")
    if n == 0:
        stats.inc("probe.empty_input")
    if any(not np.isfinite(v) for v in list(tx) + list(ty)):
        stats.inc("probe.nonfinite_coordinate")

    # values expected per layer
    nl = len(case["layers"])
    if nl == 0:
        lay_vals = [np.ones(n)]
        lay_ops = [case["call_op"] or "sum"]
        lay_units = [""]
    else:
        lay_vals, lay_ops, lay_units = [], [], []
        for l in case["layers"]:
            lay_vals.append(np.abs(np.array(l["values"], dtype=float)) if l.get("vector") else np.array(l["values"], dtype=float))
            lay_ops.append(l["op"] if l["op"] is not None else (case["call_op"] or "sum"))
            lay_units.append(l["unit"])
    # a float32 layer may be accumulated in float32; every other layer is judged at float64 accuracy
    lay_eps = [float(np.finfo(np.float32).eps) if (nl and case["layers"][k].get("dtype") == "f4") else float(np.finfo(float).eps) for k in range(len(lay_vals))]
    for l in case["layers"]:
        stats.inc("swarm.layer_dtype=" + l.get("dtype", "f8"))
    if any((~np.isfinite(v)).any() for v in lay_vals) and len(lay_vals) > 1:
        stats.inc("probe.nonfinite_value_in_one_layer_next_to_other_layers")
    if len({l.get("dtype", "f8") for l in case["layers"]}) > 1:
        stats.inc("probe.layers_of_different_dtypes_in_one_call")
    sums = np.zeros((len(lay_vals), ny, nx))
    abss = np.zeros((len(lay_vals), ny, nx))
    for i, o in enumerate(opts):
        if len(o) == 1:
            (b,) = o
            if b is not None:
                for k, v in enumerate(lay_vals):
                    sums[k][b] += v[i]
                    abss[k][b] += abs(v[i])

    def judge(label, plot, call, t1=None):
        if call["result"] is None:
            return judge_user_level(label, plot)
        counts = np.asarray(call["result"][1])
        if counts.shape != (ny, nx):
            V("counts", label, {"effect": "counts-shape"}, {"shape": list(counts.shape)})
            return
        tot = int(counts.sum())
        if np.any(counts < lower) or np.any(counts > upper) or not (n_def_in <= tot <= n_def_in + n_amb):
            if np.any(counts > upper):
                eff = "extra"
            elif np.any(counts < lower):
                eff = "missing"
            else:
                eff = "total"
            bad = np.argwhere((counts < lower) | (counts > upper))[:4].tolist()
            V("counts", label, {"effect": eff, "when": label}, {"total": tot, "expected_total": [n_def_in, n_def_in + n_amb],
                                                                "bad_bins": bad, "counts": counts.tolist() if counts.size <= 64 else None,
                                                                "expected": lower.tolist() if counts.size <= 64 else None})
            return
        if len(plot.layers) != len(lay_vals):
            V("layers", label, {"effect": "layer-count"}, {"got": len(plot.layers), "want": len(lay_vals)})
            return
        for k, layer in enumerate(plot.layers):
            data = layer["data"]
            mask = np.ma.getmaskarray(data)
            exp_mask_lo, exp_mask_hi = (upper == 0), (lower == 0)  # masked iff count==0
            if np.any(exp_mask_lo & ~mask) or np.any(~exp_mask_hi & mask):
                V("mask", label, {"effect": "mask", "when": label}, {"layer": k, "mask": mask.tolist() if mask.size <= 64 else None})
                continue
            vals = np.ma.getdata(data)
            ok_bins = (~amb_bins) & (lower > 0)
            exp = sums[k].copy()
            tol = 64 * lay_eps[k] * abss[k] + 1e-300
            if lay_ops[k] == "mean":
                with np.errstate(all="ignore"):
                    exp = np.where(lower > 0, exp / np.maximum(lower, 1), 0.0)
                    tol = tol / np.maximum(lower, 1)
            elif lay_ops[k] != "sum":
                raise HarnessError("generator produced an unknown operation")
            bad = ok_bins & np.isfinite(exp) & ~(np.abs(vals - exp) <= tol)
            if np.any(bad):
                b = tuple(np.argwhere(bad)[0])
                V("values", label, {"effect": lay_ops[k], "when": label}, {"layer": k, "bin": list(b), "got": float(vals[b]), "want": float(exp[b])})
            import osyris

            if osyris.units(layer["unit"]) != osyris.units(lay_units[k]):
                V("unit", label, {"effect": "unit"}, {"layer": k, "got": str(layer["unit"]), "want": lay_units[k]})

    def judge_user_level(label, plot):
        """Without the kernel's counts: the default layer *is* the counts; value layers are judged by mask and value."""
        if len(plot.layers) != len(lay_vals):
            V("layers", label, {"effect": "layer-count"}, {"got": len(plot.layers), "want": len(lay_vals)})
            return
        for k, layer in enumerate(plot.layers):
            data = layer["data"]
            mask = np.ma.getmaskarray(data)
            vals = np.ma.getdata(data)
            if mask.shape != (ny, nx):
                V("counts", label, {"effect": "counts-shape"}, {"shape": list(mask.shape)})
                return
            if np.any((upper == 0) & ~mask) or np.any((lower > 0) & mask):
                V("mask", label, {"effect": "mask", "when": label}, {"layer": k})
                continue
            ok_bins = (~amb_bins) & (lower > 0)
            exp = sums[k].copy()
            tol = 64 * lay_eps[k] * abss[k] + 1e-300
            if lay_ops[k] == "mean":
                with np.errstate(all="ignore"):
                    exp = np.where(lower > 0, exp / np.maximum(lower, 1), 0.0)
                    tol = tol / np.maximum(lower, 1)
            bad = ok_bins & np.isfinite(exp) & ~(np.abs(vals - exp) <= tol)
            if np.any(bad):
                b = tuple(np.argwhere(bad)[0])
                V("values", label, {"effect": lay_ops[k], "when": label}, {"layer": k, "bin": list(b), "got": float(vals[b]), "want": float(exp[b])})

    objects = _LAST.pop("objects", None)
    if case.get("later") and case["n"] > 1:
        # the returned Plot is looked at only after a later histogram of the same shape (other data) was made
        try:
            call_frontend(dict(case, x=dict(case["x"], pts=list(reversed(case["x"]["pts"]))), prior=False, knob=None), lambda: Sim(T=1))
        except HarnessError:
            raise
        except Exception:
            pass
        _LAST.pop("objects", None)
        stats.inc("probe.plot_judged_after_a_later_histogram_of_the_same_shape")
    judge("T=1", p1, c1)
    ks_ = kernel(MODNAME, KATTR)[2]
    if case.get("knob") and ks_ is not None and ks_.knobs:
        stats.inc("probe.run_with_shrunken_kernel_knobs")
        if viol:
            # the shrunken constants change the *sequential* result: they are not tuning knobs; judge the shipped values only
            stats.inc("ambig.knob_variant_changes_sequential_result")
            return execute(dict(case, knob=None), stats)
    if not viol and c2 is not c1 and c2["result"] is not None:
        judge("scheduled", p2, c2)
        # schedule independence proper: T=1 vs scheduled, outside every band
        if not viol:
            k1, k2 = np.asarray(c1["result"][1]), np.asarray(c2["result"][1])
            if not np.array_equal(k1, k2):
                V("schedule-dependence", "counts", {"effect": "counts"}, {"t1": k1.tolist()[:8], "sched": k2.tolist()[:8]})
    if not viol and case.get("second_op") is not None and objects is not None and c1["result"] is not None:
        # the same Layer / Array objects passed again with another call-level operation: each call is judged on its own arguments
        stats.inc("probe.second_call_reusing_layer_objects")
        try:
            p3, calls3 = call_frontend(case, lambda: Sim(T=1), reuse=objects, call_op=case["second_op"])
        except HarnessError:
            raise
        except Exception as e:
            V("frontend-exception", "second-call", {"effect": type(e).__name__}, {"error": f"{type(e).__name__}: {e}"[:300]})
            return res
        if len(calls3) == 1:
            for k, l in enumerate(case["layers"]):
                lay_ops[k] = l["op"] if l["op"] is not None else case["second_op"]
            if nl == 0:
                lay_ops[0] = case["second_op"]
            judge("second-call", p3, calls3[0])
    return res


# --------------------------------------------------------------------------
# minimisation


def measure(case):
    if case.get("large"):
        return (case["large"]["n"],)
    dec = case.get("decisions")
    sw = sum(1 for a, b in zip(dec, dec[1:]) if a != b) if dec else 10**6
    part = {"static-equal": 0, "static-uneven": 1, "dynamic": 2}[case["sched"]["partition"]["kind"]]
    nonfin = sum(1 for v in case["x"]["pts"] + case["y"]["pts"] if not math.isfinite(v))
    return (case["n"], len(case["layers"]), sum(1 for l in case["layers"] if l.get("dtype", "f8") != "f8"), case["sched"]["T"], part, case["res"], nonfin, int(bool(case.get("knob"))), int(case.get("second_op") is not None) + int(bool(case.get("prior"))), sw, len(dec) if dec else 10**6)


def canonical(case, viol):
    """Freeze the schedule that was actually taken into an explicit decision list."""
    if case.get("large") or "decisions" in case or case["sched"]["T"] == 1:
        return case
    r = execute(case, core.Stats())
    c = dict(case)
    c["decisions"] = list(r.get("decisions", []))
    return c


def _drop_point(case, i):
    c = dict(case)
    c["n"] = case["n"] - 1
    for a in ("x", "y"):
        c[a] = dict(case[a])
        c[a]["pts"] = case[a]["pts"][:i] + case[a]["pts"][i + 1:]
    c["layers"] = [dict(l, values=l["values"][:i] + l["values"][i + 1:]) for l in case["layers"]]
    c.pop("decisions", None)  # the schedule no longer fits: search again by policy
    return c


def reductions(case, viol):
    if case.get("large"):
        return
    n = case["n"]
    # 1. drop halves / single points
    if n > 1:
        for chunk in (n // 2, n // 4, 1):
            if chunk < 1:
                continue
            for s in range(0, n, chunk):
                c = case
                for i in reversed(range(s, min(n, s + chunk))):
                    c = _drop_point(c, i)
                if c["n"] >= 1:
                    yield from _resched(c)
    # 2. fewer layers (references to a dropped or shifted layer are resolved: the values are literal anyway)
    for k in range(len(case["layers"])):
        c = dict(case)
        kept = []
        for j, l in enumerate(case["layers"]):
            if j == k:
                continue
            l2 = dict(l)
            sa = l2.get("same_as")
            if sa is not None:
                if sa == k:
                    l2.pop("same_as")
                elif sa > k:
                    l2["same_as"] = sa - 1
            kept.append(l2)
        c["layers"] = kept
        yield c
    for k, l in enumerate(case["layers"]):
        if l.get("dtype", "f8") != "f8" and l.get("same_as") is None and not any(m.get("same_as") == k for m in case["layers"]):
            yield dict(case, layers=case["layers"][:k] + [dict(l, dtype="f8")] + case["layers"][k + 1:])
    # 3. fewer workers / simpler partition / smaller resolution
    s = case["sched"]
    if s["T"] > 1:
        for T in (2, s["T"] - 1, 1):
            if 1 <= T < s["T"]:
                c = dict(case)
                c["sched"] = dict(s, T=T)
                c.pop("decisions", None)
                yield from _resched(c)
    if s["partition"]["kind"] != "static-equal":
        c = dict(case)
        c["sched"] = dict(s, partition={"kind": "static-equal"})
        c.pop("decisions", None)
        yield from _resched(c)
    if case.get("knob"):
        yield dict(case, knob=None)
    if case.get("second_op") is not None:
        yield dict(case, second_op=None)
    if case.get("prior"):
        yield dict(case, prior=False)
    if case.get("later"):
        yield dict(case, later=False)
    if case.get("xdtype", "f8") != "f8":
        yield dict(case, xdtype="f8")
    # 4. non-finite entries -> finite
    for a in ("x", "y"):
        for i, v in enumerate(case[a]["pts"]):
            if not math.isfinite(v):
                c = dict(case)
                c[a] = dict(case[a])
                c[a]["pts"] = list(case[a]["pts"])
                b0, b1 = case[a]["base"]
                c[a]["pts"][i] = math.sqrt(b0 * b1) if case[a]["log"] else 0.5 * (b0 + b1)
                yield c
    # 5. replace scheduling decisions by "stay" (fewer context switches)
    dec = case.get("decisions")
    if dec:
        for k in range(len(dec) - 1, 0, -1):
            if dec[k] != dec[k - 1]:
                c = dict(case)
                c["decisions"] = dec[:k] + [dec[k - 1]] + dec[k + 1:]
                yield c
        # truncate the tail (total decision lists: the rest falls back to "stay")
        for cut in (len(dec) // 2, len(dec) - 1):
            if 0 < cut < len(dec):
                c = dict(case)
                c["decisions"] = dec[:cut]
                yield c


def _resched(c):
    """A structurally reduced case lost its explicit schedule: try a few policy seeds."""
    if c["sched"]["T"] == 1:
        yield c
        return
    for k in range(6):
        d = dict(c)
        d["sched"] = dict(c["sched"], sched_seed=core.H(c["sched"]["sched_seed"], "resched", k) % 2**48,
                          policy={"kind": "conflict", "q": 0.9, "p": 0.02, "on_load": False} if k % 2 == 0 else c["sched"]["policy"])
        yield d


# --------------------------------------------------------------------------
# compiled-kernel anchor (parent process, after the pool)


def finalize(tier, base_seed, stats, viols):
    import random

    nanchor = 40 if tier == "quick" else 400
    checked = 0
    for r in range(nanchor):
        rng = random.Random(core.H(base_seed, PROPERTY, "anchor", r))
        case = generate(rng, tier)
        case["sched"] = {"T": 1, "partition": {"kind": "static-equal"}, "policy": {"kind": "seq"}, "sched_seed": 0}
        st = core.Stats()
        res = execute(case, st)
        if res["violations"] or "sim_T1_args" not in res:
            continue
        args = res["sim_T1_args"]
        if args is None:
            continue  # the front-end does not use the kernel seam: nothing to anchor
        # simulated T=1 again, then compiled with one thread
        mod, orig, ks = kernel(MODNAME, KATTR)
        sim_out = ks.run(Sim(T=1), **args)
        real_out = compiled_call(MODNAME, KATTR, args, nthreads=1)
        for a, b in [(sim_out, real_out)]:
            if not same_results(a, b):
                raise HarnessError(f"model divergence: simulated T=1 != compiled T=1 for anchor case {r} (seed {core.H(base_seed, PROPERTY, 'anchor', r)})")
        checked += 1
    # ---- lengths beyond the simulator: shipped front-end + compiled kernel, one thread, exact reference
    sizes = [2 ** 20 + 37] if tier == "quick" else [2 ** 20 + 37, 2_500_003, 2 ** 22 + 5]
    nlarge = 0
    plan = [(n, 1) for n in sizes] + [(2 ** 20 + 37, "all")] + [(2 ** 24 + 4321, "onebin")]
    for k, (n, thr) in enumerate(plan):
        case = {"large": {"n": n, "res": [7, 16, 5][k % 3], "seed": core.H(base_seed, PROPERTY, "large", k) % (2 ** 31), "threads": thr if thr != "onebin" else 1,
                          "onebin": thr == "onebin"}, "run": -1 - k, "seed": 0}
        res = core.safe_execute(sys.modules[__name__], case, stats)
        nlarge += 1
        for v in res["violations"]:
            viols.append({"case": case, "violation": v})
    return {"fidelity_anchor": {"workloads_compiled_T1_equal_simulated_T1": checked, "attempted": nanchor},
            "large_inputs": {"runs": nlarge, "points": sizes, "how": "shipped front-end, compiled kernel, 1 numba thread, exact numpy reference"}}
