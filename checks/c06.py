"""C06 -- Datagroup members stay row-aligned under insertion, slicing, sorting.

Engine H: histories of insert/replace/update/delete/pop/index/sort operations
issued by 2 holders on two Datagroup slots that may share member objects.
Every value is a unique stamp (member, row), so the origin of each number is
attributable.  Reference model: plain numpy arrays per member, row tuples.
"""
import importlib
import warnings

import numpy as np

from sim import core
from sim.core import HarnessError
from sim.history import list_reductions

PROPERTY = "C06"
ENGINE = "H"
DEFAULT_SEED = 606
RUNS = {"quick": 5000, "thorough": 300000}
JOBS = {"quick": 8, "thorough": 16}
SEARCH_SPACE = "operation histories (insert/replace/update/delete/pop/index/sortby) on groups sharing member objects, mis-shaped insertions as faults, all index-object kinds incl. caller-owned index buffers refilled in place"
RULE = ("one run = one history of 3..40 operations on two Datagroup slots (Arrays and 1/2/3-component Vectors, 0..12 rows, 4 dtypes, "
        "unique (member,row) stamps), checked after every step against numpy row tuples; distinct = hash of the operation list; "
        "non-trivial = at least one row selection or sort was applied to a group with >= 2 members and >= 2 rows")
ASSUMPTIONS = [
    "replacing the sole member of a group by a value of another shape may be accepted or rejected (the statement only requires breaking insertions to be rejected)",
    "update() with several items is judged item by item",
    "sorting by a key with ties may produce any consistent permutation; sorting by a Vector member is not generated (no order defined)",
    "groups of scalars (result of integer indexing) are outside the statement's '(non-scalar) Datagroup' and receive no further row operations",
    "an index that numpy computes from a member (np.argsort / argmax / argmin of an Array) is taken as the input of the selection once it is verified to be what it claims (ties in any order)",
    "groups whose first member is an (n,k) Array only accept (n,k) members; narrow, unsigned and boolean members are not unique per row (rows are attributed through the other members)",
]
REAL_STUB = {"real": ["osyris.Datagroup", "osyris.Array", "osyris.Vector"], "stub": []}
KEYS = ["a", "b", "c", "d", "e", "f"]
NS = 2
DT = {"f8": np.float64, "f4": np.float32, "i8": np.int64, "i4": np.int32, "u1": np.uint8, "u2": np.uint16, "u8": np.uint64, "i1": np.int8, "b1": np.bool_}
NARROW = ("u1", "u2", "u8", "i1", "b1")


def prepare(tier):
    warnings.filterwarnings("ignore")
    importlib.import_module("osyris")


# --------------------------------------------------------------------------


def gen_member(rng, mid, n):
    # "arr2": an Array of shape (n, 2) or (n, 3): as long as an (n,) member, but of another shape
    kind = rng.choice(["arr", "arr", "arr", "arr", "arr", "arr", "vec", "vec", "arr2"])
    order = list(range(max(n, 1)))
    rng.shuffle(order)
    cdt = rng.choice([["i8", "f8", "f8"], ["f4", "f8", "f8"], ["f8", "f4", "i8"], ["i4", "f8", "f4"]]) if kind == "vec" and rng.random() < 0.3 else None
    return {"cdt": cdt, "kind": kind, "nc": rng.choice([1, 2, 3]) if kind == "vec" else (rng.choice([2, 3]) if kind == "arr2" else 1), "dtype": rng.choice(["f8", "f8", "f8", "f4", "i8", "i4"] + (list(NARROW) if kind == "arr" else [])),
            "unit": rng.choice(["", "m", "g", "cm/s"]), "mid": mid, "order": order}


def gen_index(rng, n):
    t = rng.choice(["int", "slice", "slice", "mask", "mask", "ints", "ints", "perm", "argsort"])
    if t == "argsort":
        # an index computed from a member by numpy (np.argsort / np.argmax of a unit-carrying Array: the result is whatever
        # the library makes of it), or a comparison mask of a member
        return {"t": "argsort", "how": rng.choice(["argsort", "argsort", "argmax", "argmin", "compare"]), "pick": rng.randrange(8)}
    if t == "int":
        return {"t": "int", "i": rng.randrange(-max(n, 1), max(n, 1))}
    if t == "slice":
        f = lambda: rng.choice([None, None, rng.randrange(-n - 1, n + 2)])
        return {"t": "slice", "a": f(), "b": f(), "s": rng.choice([None, None, 1, 2, 3, -1, -2])}
    if t == "mask":
        # "reuse": the caller keeps one preallocated index buffer per row count and refills it in place before every use
        return {"t": "mask", "bits": [rng.random() < 0.5 for _ in range(max(n, 1))], "as": rng.choice(["ndarray", "Array", "list"]), "reuse": rng.random() < 0.4}
    if t == "ints":
        return {"t": "ints", "idx": [rng.randrange(-max(n, 1), max(n, 1)) for _ in range(rng.randrange(0, n + 3))], "as": rng.choice(["ndarray", "Array", "list", "i4"])}
    p = list(range(max(n, 1)))
    rng.shuffle(p)
    return {"t": "ints", "idx": p, "as": rng.choice(["ndarray", "Array"]), "reuse": rng.random() < 0.4}


def generate(rng, tier):
    n0 = rng.choice([0, 1, 2, 3, 5, 8, 12])
    ops = []
    mid = 0
    nops = rng.choice([3, 5, 8, 12, 20, 40])
    # start with a few members so that selections are meaningful
    for _ in range(rng.choice([1, 2, 3, 4])):
        mid += 1
        ops.append({"op": "insert", "h": 0, "s": 0, "key": rng.choice(KEYS), "m": gen_member(rng, mid, n0), "rows": "ok"})
    for _ in range(nops):
        h = rng.randrange(2)
        s = rng.randrange(NS)
        r = rng.random()
        if r < 0.22:
            mid += 1
            ops.append({"op": "insert", "h": h, "s": s, "key": rng.choice(KEYS), "m": gen_member(rng, mid, n0),
                        "rows": rng.choice(["ok", "ok", "ok", "plus1", "minus1", "double", "zero"])})
        elif r < 0.30:
            items = []
            for _ in range(rng.choice([1, 2, 3])):
                mid += 1
                items.append([rng.choice(KEYS), gen_member(rng, mid, n0), rng.choice(["ok", "ok", "ok", "plus1"])])
            ops.append({"op": "update", "h": h, "s": s, "items": items, "kw": rng.random() < 0.5})
        elif r < 0.36:
            ops.append({"op": rng.choice(["del", "pop"]), "h": h, "s": s, "key": rng.choice(KEYS)})
        elif r < 0.40:
            ops.append({"op": "share", "h": h, "s": s, "from_s": rng.randrange(NS), "pick": rng.randrange(8), "key": rng.choice(KEYS)})
        elif r < 0.72:
            ops.append({"op": "index", "h": h, "s": s, "to": rng.randrange(NS), "idx": gen_index(rng, n0)})
        elif r < 0.90:
            how = rng.choice(["key", "key", "list"])
            p = list(range(max(n0, 1)))
            rng.shuffle(p)
            ops.append({"op": "sortby", "h": h, "s": s, "how": how, "pick": rng.randrange(8), "idx": p})
        elif r < 0.93:
            ops.append({"op": "clear", "h": h, "s": s})
        else:
            ops.append({"op": "copy", "h": h, "s": s, "to": rng.randrange(NS)})
    case = {"n0": n0, "ops": ops}
    if rng.random() < 0.02:
        # the same selections at sizes where libraries switch code paths
        case["big"] = {"n": rng.choice([70000, 131073, 200000]), "seed": rng.getrandbits(30),
                       "sel": rng.choice(["mask", "mask-array", "ints", "ints-neg", "slice-step", "slice-neg", "sortby-key", "sortby-index", "argsort"])}
    return case


def describe(case):
    return {"n0": case["n0"], "n_ops": len(case["ops"]), "ops": case["ops"][:10]}


# --------------------------------------------------------------------------


def stamp(m, n):
    """Literal values of a member for n rows: unique, exactly representable in every dtype."""
    L = len(m["order"])
    base = [m["mid"] * 200 + m["order"][i % L] + 20 * (i // L) for i in range(n)]
    if m["dtype"] in NARROW:
        # narrow, unsigned and boolean members: values inside the dtype's range (not unique per member: rows are attributed
        # through the other members); int8 values span the range so that neighbouring differences overflow
        small = [m["order"][i % L] + 13 * (i // L) for i in range(n)]
        vals = {"u1": [(7 * v + m["mid"]) % 251 for v in small], "u2": [(977 * v + m["mid"]) % 65521 for v in small], "u8": [v * 3 + m["mid"] for v in small],
                "i1": [((37 * v + m["mid"]) % 251) - 125 for v in small], "b1": [bool((v + m["mid"]) % 3 == 0) for v in small]}[m["dtype"]]
        return [np.array(vals, dtype=DT[m["dtype"]])]
    comps = []
    for c in range(m["nc"]):
        comps.append(np.array([b + 20000 * c for b in base], dtype=DT[m["dtype"]]))
    if m["kind"] == "arr2":
        return [np.stack(comps, axis=1)] if n else [np.zeros((0, m["nc"]), dtype=DT[m["dtype"]])]
    if m["kind"] == "vec" and m.get("cdt"):
        # components of one Vector stored with different dtypes; the float64 ones carry a fraction no narrower type can hold
        out = []
        for c, col in enumerate(comps):
            dt = DT[m["cdt"][c % len(m["cdt"])]]
            col = col.astype(np.float64) + (1.0 / 3.0 if dt == np.float64 else 0.0)
            out.append(col.astype(dt))
        return out
    return comps


def build(m, n):
    import osyris

    comps = stamp(m, n)
    if m["kind"] in ("arr", "arr2"):
        return osyris.Array(values=comps[0].copy(), unit=m["unit"]), comps
    return osyris.Vector(*[c.copy() for c in comps], unit=m["unit"]), comps


def observed(obj):
    import osyris

    if isinstance(obj, osyris.Vector):
        return [np.asarray(c.values) for c in core.vcomps(obj)]
    return [np.asarray(obj.values)]


def np_index(idx, n, osy, bufs=None):
    """(python index object for osyris, numpy index object for the model) adapted to n rows; None = not applicable.
    `bufs`: the caller's reusable index buffers of this run, keyed by (kind, length); refilled in place."""
    t = idx["t"]

    def buffered(values, kind):
        if bufs is None or not idx.get("reuse") or idx.get("as") not in ("ndarray", "Array"):
            return values.copy()
        key = (kind, len(values))
        if key not in bufs:
            bufs[key] = {"nd": np.empty(len(values), dtype=values.dtype)}
            bufs[key]["Array"] = osy.Array(values=bufs[key]["nd"])  # wraps the same buffer
            if bufs[key]["Array"].values is not bufs[key]["nd"]:
                bufs[key]["Array"] = None
        bufs[key]["nd"][...] = values
        return bufs[key]

    if t == "int":
        if n == 0:
            return None
        i = idx["i"] % n if idx["i"] >= 0 else -((-idx["i"] - 1) % n) - 1
        return i, i
    if t == "slice":
        s = slice(idx["a"], idx["b"], idx["s"])
        return s, s
    if t == "mask":
        bits = np.array([idx["bits"][i % len(idx["bits"])] for i in range(n)], dtype=bool)
        if idx["as"] == "list":
            return [bool(b) for b in bits], bits
        b = buffered(bits, "mask")
        if idx["as"] == "Array":
            if isinstance(b, dict):
                return (b["Array"] if b["Array"] is not None else osy.Array(values=b["nd"])), bits
            return osy.Array(values=b), bits
        return (b["nd"] if isinstance(b, dict) else b), bits
    if t == "ints":
        if n == 0:
            ii = np.array([], dtype=np.int64)
        else:
            ii = np.array([(i % n if i >= 0 else -((-i - 1) % n) - 1) for i in idx["idx"]], dtype=np.int64)
        if idx["as"] == "list":
            return [int(i) for i in ii], ii
        if idx["as"] == "i4":
            return ii.astype(np.int32), ii
        b = buffered(ii, "ints")
        if idx["as"] == "Array":
            if isinstance(b, dict):
                return (b["Array"] if b["Array"] is not None else osy.Array(values=b["nd"])), ii
            return osy.Array(values=b), ii
        return (b["nd"] if isinstance(b, dict) else b), ii
    raise HarnessError("bad index spec")


class Slot:
    def __init__(self, osy):
        self.g = osy.Datagroup()
        self.m = {}  # key -> {"obj", "comps": [np arrays], "unit", "kind"}
        self.scalar = False

    def rows(self):
        if not self.m:
            return None
        return next(iter(self.m.values()))["comps"][0].shape


def big_scenario(bg, osy, viol, stats):
    """One selection / sort on a group of three members (float Array, int Array, 3-component Vector) with ~10^5 rows,
    against numpy fancy indexing."""
    op = {"op": "big", "big": bg}
    stats.inc("probe.large_group_scenario=" + bg["sel"])

    def V(clause, detail):
        viol.append({"class": "row-alignment", "clause": clause, "key": {"op": "big", "clause": clause, "idx": bg["sel"]}, "detail": dict(detail, step=0, op=op)})

    try:
        n = bg["n"]
        g = np.random.default_rng(bg["seed"])
        row = np.arange(n, dtype=np.int64)
        a = g.permutation(n).astype(np.float64) + 0.5
        comps = [row * 3.0 + c for c in range(3)]
        dg = osy.Datagroup()
        dg["a"] = osy.Array(values=a.copy(), unit="cm")
        dg["r"] = osy.Array(values=row.copy(), unit="")
        dg["v"] = osy.Vector(*[c.copy() for c in comps], unit="cm/s")
        s = bg["sel"]
        if s in ("mask", "mask-array"):
            ni = g.random(n) < 0.37
            oi = ni.copy() if s == "mask" else osy.Array(values=ni.copy())
        elif s in ("ints", "ints-neg"):
            ni = g.integers(-n if s == "ints-neg" else 0, n, size=n // 3)
            oi = ni.copy()
        elif s == "slice-step":
            ni = oi = slice(5, n - 7, 3)
        elif s == "slice-neg":
            ni = oi = slice(None, None, -2)
        elif s == "argsort":
            oi = np.argsort(dg["a"])
            ni = np.asarray(oi.values if isinstance(oi, osy.Array) else oi).astype(np.int64)
            if not np.array_equal(a[ni], np.sort(a)):
                return
        else:
            ni = np.argsort(a, kind="stable")
            oi = None
        if s == "sortby-key":
            dg.sortby("a")
            out = dg
        elif s == "sortby-index":
            dg.sortby(ni.copy() if bg["seed"] % 2 else osy.Array(values=ni.copy()))
            out = dg
        else:
            out = dg[oi]
        want = {"a": [a[ni]], "r": [row[ni]], "v": [c[ni] for c in comps]}
        if list(out.keys()) != ["a", "r", "v"]:
            V("index-keys", {"keys": list(out.keys())})
            return
        for k, ws in want.items():
            got = observed(out[k])
            if len(got) != len(ws) or any(x.shape != y.shape or not np.array_equal(x, y) for x, y in zip(got, ws)):
                V("values", {"key": k, "n": n, "rows_got": [int(x.shape[0]) if x.ndim else -1 for x in got], "rows_want": int(ws[0].shape[0])})
                return
        if out["a"].unit != osy.units("cm") or out["v"].unit != osy.units("cm/s"):
            V("unit", {"a": str(out["a"].unit), "v": str(out["v"].unit)})
    except HarnessError:
        raise
    except Exception as e:
        V("exception", {"error": f"{type(e).__name__}: {e}"[:300]})


def execute(case, stats):
    import osyris as osy

    viol = []
    res = {"violations": viol, "nontrivial": False}
    if case.get("big"):
        big_scenario(case["big"], osy, viol, stats)
        if viol:
            res["signature"] = core.digest(case)[:20]
            return res
    slots = [Slot(osy) for _ in range(NS)]
    nontrivial = False
    bufs = {}  # the caller's reusable index buffers
    lastname = {}  # id(member object) -> key of its most recent insertion (objects are kept alive in `alive`)
    alive = []

    def V(step, op, clause, detail):
        viol.append({"class": "row-alignment", "clause": clause, "key": {"op": op["op"], "clause": clause,
                     "idx": op.get("idx", {}).get("t") if isinstance(op.get("idx"), dict) else None},
                     "detail": dict(detail, step=step, op=op)})

    def cur_n(s):
        sh = slots[s].rows()
        if sh is None:
            return case["n0"]
        return sh[0] if sh else 0

    def want_n(s, rows):
        n = cur_n(s)
        return {"ok": n, "plus1": n + 1, "minus1": max(0, n - 1), "double": 2 * n + 1, "zero": 0}[rows]

    def insert(step, op, s, key, m, rows):
        S = slots[s]
        if S.scalar:
            return
        n = want_n(s, rows)
        obj, comps = build(m, n)
        shape = S.rows()
        bad = shape is not None and shape != comps[0].shape
        sole = bad and len(S.m) == 1 and key in S.m
        before_keys = list(S.g.keys())
        try:
            S.g[key] = obj
            ok = True
        except ValueError:
            ok = False
        if bad and ok and not sole:
            V(step, op, "shape-gate", {"inserted_shape": list(comps[0].shape), "group_shape": list(shape)})
            return
        if not bad and not ok:
            V(step, op, "rejected-valid-insertion", {"shape": list(comps[0].shape), "group_shape": list(shape) if shape else None})
            return
        if not ok:
            stats.inc("fault.rejected_misshaped_insertion")
            if list(S.g.keys()) != before_keys:
                V(step, op, "shape-gate", {"rejected_but_keys_changed": True})
            return "rejected"
        S.m[key] = {"obj": obj, "comps": comps, "unit": m["unit"], "kind": m["kind"]}
        return "ok"

    for step, op in enumerate(case["ops"]):
        if viol:
            break
        k = op["op"]
        stats.inc("steps.operations")
        stats.add("op_bigrams", (case["ops"][step - 1]["op"] if step else "^") + ">" + k)
        try:
            S = slots[op["s"]]
            if k == "insert":
                insert(step, op, op["s"], op["key"], op["m"], op["rows"])
            elif k == "update":
                if S.scalar:
                    continue
                # judged item by item: same as the sequence of insertions, stopping at the first rejection
                n_now = cur_n(op["s"])
                d, built = {}, {}
                for key, m, rows in op["items"]:
                    nn = {"ok": n_now, "plus1": n_now + 1}[rows]
                    d[key], built[key] = None, (m, nn)
                objs = {}
                for key, (m, nn) in built.items():
                    objs[key] = build(m, nn)
                arg = {key: o for key, (o, c) in objs.items()}
                try:
                    if op["kw"]:
                        S.g.update(**arg)
                    else:
                        S.g.update(arg)
                    raised = False
                except ValueError:
                    raised = True
                    stats.inc("fault.rejected_misshaped_insertion")
                for key, (o, comps) in objs.items():
                    shape = S.rows()
                    bad = shape is not None and shape != comps[0].shape
                    if bad:
                        sole = len(S.m) == 1 and key in S.m
                        if not raised and not sole:
                            V(step, op, "shape-gate", {"update_inserted_misshaped": key})
                        if raised:
                            break
                    S.m[key] = {"obj": o, "comps": comps, "unit": built[key][0]["unit"], "kind": built[key][0]["kind"]}
            elif k in ("del", "pop"):
                key = op["key"]
                try:
                    if k == "del":
                        del S.g[key]
                    else:
                        S.g.pop(key)
                    raised = False
                except KeyError:
                    raised = True
                if (key in S.m) == raised:
                    V(step, op, "keyerror", {"present": key in S.m, "raised": raised})
                S.m.pop(key, None)
                if not S.m:
                    S.scalar = False
            elif k == "share":
                src = slots[op["from_s"]]
                if not src.m or S.scalar or src.scalar:
                    continue
                skey = list(src.m)[op["pick"] % len(src.m)]
                ent = src.m[skey]
                shape = S.rows()
                if shape is not None and shape != ent["comps"][0].shape:
                    continue
                S.g[op["key"]] = ent["obj"]
                S.m[op["key"]] = dict(ent)
                # one object stored under two keys carries the name of the last insertion (not judged by C06)
                lastname[id(ent["obj"])] = op["key"]
                stats.inc("probe.member_object_shared_between_groups")
            elif k == "clear":
                S.g.clear()
                S.m.clear()
                S.scalar = False
            elif k == "copy":
                T = slots[op["to"]]
                new = S.g.copy()
                T.g, T.m, T.scalar = new, {kk: dict(v) for kk, v in S.m.items()}, S.scalar
                for kk, v in S.m.items():
                    lastname[id(v["obj"])] = kk
            elif k == "index":
                if S.scalar or not S.m:
                    continue
                n = cur_n(op["s"])
                if op["idx"]["t"] == "argsort":
                    arrs = [kk for kk, e in S.m.items() if e["kind"] == "arr"]
                    if not arrs or n == 0:
                        continue
                    key = arrs[op["idx"]["pick"] % len(arrs)]
                    mv = S.m[key]["comps"][0]
                    how = op["idx"]["how"]
                    if how == "argsort":
                        oi_ = np.argsort(S.g[key])
                        ni_ = np.asarray(oi_.values if isinstance(oi_, osy.Array) else oi_).astype(np.int64)
                        # the index object is the input of the selection; it only has to be what it claims to be (ties in any order)
                        if sorted(ni_.tolist()) != list(range(n)) or np.any(np.diff(mv[ni_]) < 0):
                            continue
                        pair = (oi_, ni_)
                    elif how in ("argmax", "argmin"):
                        oi_ = getattr(np, how)(S.g[key])
                        ni_ = int(np.asarray(oi_.values if isinstance(oi_, osy.Array) else oi_))
                        if not (0 <= ni_ < n) or mv[ni_] != getattr(np, how[3:])(mv):
                            continue
                        pair = (oi_, ni_)
                    else:
                        thr = float(np.median(mv))
                        pair = (S.g[key] > osy.Array(values=thr, unit=S.m[key]["unit"]), mv > thr)
                    stats.inc("probe.index_computed_from_a_member=" + how)
                else:
                    pair = np_index(op["idx"], n, osy, bufs)
                if op["idx"].get("reuse") and op["idx"].get("as") in ("ndarray", "Array"):
                    stats.inc("probe.index_buffer_refilled_in_place")
                if pair is None:
                    continue
                oi, ni = pair
                out = S.g[oi]
                T = slots[op["to"]]
                newm = {}
                for kk, ent in S.m.items():
                    newm[kk] = {"obj": None, "comps": [c[ni] for c in ent["comps"]], "unit": ent["unit"], "kind": ent["kind"]}
                if not isinstance(out, osy.Datagroup):
                    V(step, op, "index-type", {"type": type(out).__name__})
                    continue
                if list(out.keys()) != list(newm):
                    V(step, op, "index-keys", {"keys": list(out.keys()), "want": list(newm)})
                    continue
                for kk in newm:
                    newm[kk]["obj"] = out[kk]
                T.g, T.m = out, newm
                T.scalar = op["idx"]["t"] == "int" or op["idx"].get("how") in ("argmax", "argmin")
                stats.inc("probe.index_" + op["idx"]["t"] + ("_as_" + op["idx"].get("as", "") if "as" in op["idx"] else ""))
                if len(newm) >= 2 and n >= 2:
                    nontrivial = True
            elif k == "sortby":
                if S.scalar or not S.m:
                    continue
                n = cur_n(op["s"])
                if op["how"] == "key":
                    arrs = [kk for kk, e in S.m.items() if e["kind"] == "arr"]
                    if not arrs:
                        continue
                    key = arrs[op["pick"] % len(arrs)]
                    before = {kk: [c.copy() for c in e["comps"]] for kk, e in S.m.items()}
                    S.g.sortby(key)
                    # any permutation that sorts the key and is applied to all members alike
                    kobs = observed(S.g[key])[0]
                    if not np.array_equal(kobs, np.sort(before[key][0], kind="stable")):
                        V(step, op, "sort-order", {"key": key, "got": kobs.tolist()[:12]})
                        continue
                    rows_before = sorted(zip(*[c.tolist() for kk in before for c in before[kk]])) if n else []
                    obs = [c for kk in S.m for c in observed(S.g[kk])]
                    if any(o.shape != (n,) for o in obs):
                        V(step, op, "sort-shape", {"shapes": [list(o.shape) for o in obs]})
                        continue
                    rows_after = sorted(zip(*[c.tolist() for c in obs])) if n else []
                    if rows_before != rows_after:
                        V(step, op, "sort-rows", {"key": key, "rows_after": rows_after[:4], "rows_before": rows_before[:4]})
                        continue
                    for kk, e in S.m.items():
                        e["comps"] = [np.asarray(c).copy() for c in observed(S.g[kk])]
                        e["obj"] = S.g[kk]
                    stats.inc("probe.sortby_key")
                else:
                    p = [i for i in op["idx"] if i < n]
                    p = p + [i for i in range(n) if i not in p]
                    # the permutation as a list, an ndarray, or carried by an (int64 / int32) Array
                    how_ = op["pick"] % 4
                    S.g.sortby(list(p) if how_ == 1 else np.array(p, dtype=np.int64) if how_ == 0 else
                               osy.Array(values=np.array(p, dtype=np.int64 if how_ == 2 else np.int32)))
                    stats.inc("probe.sortby_index_as_" + ["ndarray", "list", "Array_i8", "Array_i4"][how_])
                    for kk, e in S.m.items():
                        e["comps"] = [c[np.array(p, dtype=np.int64)] for c in e["comps"]]
                        e["obj"] = S.g[kk]
                    stats.inc("probe.sortby_index_list")
                if len(S.m) >= 2 and n >= 2:
                    nontrivial = True
            else:
                raise HarnessError(f"unknown op {k}")
        except HarnessError:
            raise
        except Exception as e:
            V(step, op, "exception", {"error": f"{type(e).__name__}: {e}"[:300]})
        if viol:
            break
        # ---- invariant after every step, every slot: same shape, values = model, units, names
        for S in slots:
            for kk, e in S.m.items():
                if e["obj"] is not None and id(e["obj"]) not in lastname:
                    lastname[id(e["obj"])] = kk
                    alive.append(e["obj"])
        for si, S in enumerate(slots):
            if list(S.g.keys()) != list(S.m):
                V(step, op, "keys", {"slot": si, "keys": list(S.g.keys()), "model": list(S.m)})
                break
            shapes = {tuple(S.g[kk].shape) for kk in S.m}
            if len(shapes) > 1 and not S.scalar:
                V(step, op, "same-shape", {"slot": si, "shapes": sorted(map(list, shapes))})
                break
            for kk, e in S.m.items():
                obj = S.g[kk]
                obs = observed(obj)
                if len(obs) != len(e["comps"]) or any(not np.array_equal(a, b) for a, b in zip(obs, e["comps"])):
                    V(step, op, "values", {"slot": si, "key": kk, "got": [o.tolist() if o.ndim else o.item() for o in obs][:3],
                                           "want": [c.tolist() if np.ndim(c) else np.asarray(c).item() for c in e["comps"]][:3]})
                    break
                if obj.unit != osy.units(e["unit"]):
                    V(step, op, "unit", {"slot": si, "key": kk, "got": str(obj.unit), "want": e["unit"]})
                    break
                if obj.name != lastname.get(id(obj), kk):
                    V(step, op, "name", {"slot": si, "key": kk, "name": obj.name})
                    break
                if (e["kind"] == "vec") != isinstance(obj, osy.Vector):
                    V(step, op, "kind", {"slot": si, "key": kk})
                    break
            if viol:
                break
    res["signature"] = core.digest(case)[:20]
    res["nontrivial"] = nontrivial
    return res


def measure(case):
    return (len(case["ops"]) + (1000 if case.get("big") else 0), case["n0"], sum(1 for o in case["ops"] if o["op"] == "index" and o["idx"].get("reuse")), len(core.dumps(case["ops"])))


def reductions(case, viol):
    if case.get("big"):
        c = dict(case)
        del c["big"]
        yield c
        yield dict(case, ops=[])
    yield from list_reductions(case, "ops")
    for n in (2, 3, case["n0"] - 1):
        if 0 <= n < case["n0"]:
            yield dict(case, n0=n)
    for i, op in enumerate(case["ops"]):
        if op["op"] == "insert" and (op["m"]["kind"] == "vec" or op["m"]["dtype"] != "f8" or op["m"]["unit"]):
            c = dict(case)
            c["ops"] = list(case["ops"])
            c["ops"][i] = dict(op, m=dict(op["m"], kind="arr", nc=1, dtype="f8", unit=""))
            yield c
        if op["op"] == "index" and op["idx"].get("reuse"):
            c = dict(case)
            c["ops"] = list(case["ops"])
            c["ops"][i] = dict(op, idx=dict(op["idx"], reuse=False))
            yield c
