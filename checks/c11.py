"""C11 -- thick maps reduce the sampled column and scale units consistently.

Engine K (as C03) with a slab: the real `osyris.map(dz=..., operation=...)`
front-end runs with `evaluate_on_grid` simulated; the oracle samples every
pixel column independently at the evenly spaced depths and applies the
reduction itself.
"""
import importlib
import warnings

import numpy as np

from sim import core
from sim.core import HarnessError
from sim.kseam import compiled_call, kernel, same_results
from sim.mapmodel import UNIT_CM, build_mesh, gen_direction, gen_mesh, gen_view
from sim.parsim import KernelError, Sim, draw_schedule_config
from checks import c03

PROPERTY = "C11"
ENGINE = "K"
DEFAULT_SEED = 1111
RUNS = {"quick": 1000, "thorough": 60000}
JOBS = {"quick": 8, "thorough": 16}
RUN_WALL_GUARD = 600
SEARCH_SPACE = "meshes x origins x orientations x windows x slab thickness x (x,y,z) resolutions x reductions x (thread count, partition, interleaving of every store of the kernel's 3-D output buffer)"
RULE = ("one run = one in-memory AMR tiling mapped once with a thickness dz and a reduction (call-level, 25% of the layers with their own; 12% after an earlier map with the same objects), kernel simulated at T=1 and under a seeded schedule; every pixel "
        "column is sampled independently; distinct = hash of (workload, conflict signature); non-trivial = >= 4 pixels whose whole column is unambiguous "
        "with >= 2 depth samples, at least one of them hitting a cell")
ASSUMPTIONS = [
    "as C03 (kernel model, face band 1e-9)",
    "without an explicit depth resolution the number of samples may be round(dz / pixel) or the integer minimising |dz/n - pixel| (the statement's 'as close as possible' admits both readings)",
    "the reductions are numpy's: nansum of an all-missing column is 0, nanmean/nanmin/nanmax of it are missing; a pixel is masked iff its reduced value is NaN",
    "dz is at least 0.75 pixel (the statement starts at one pixel)",
    "3-D meshes only: two-dimensional data have no extent along the normal, so a slab thickness has no defined meaning for them",
    "pixels whose column contains a sample in the face band are counted as ambiguous and not judged",
    "when the layers of one call reduce differently, which pixels are masked is not part of the statement: shown values are judged, masked or NaN-expected pixels are skipped",
]
REAL_STUB = c03.REAL_STUB
MODNAME, KATTR = c03.MODNAME, c03.KATTR
OPS = ["sum", "mean", "min", "max", "nansum", "nanmean", "nanmin", "nanmax"]


def prepare(tier):
    c03.prepare(tier)


def generate(rng, tier):
    m = gen_mesh(rng, tier, ndim=3, maxcells=rng.choice([30, 80, 200]))
    cells = build_mesh(m)
    view = gen_view(rng, m, cells)
    smin = min(c["dx"] for c in cells)
    smax = max(c["dx"] for c in cells)
    r = rng.choice([1, 2, 3, 4, 6, 8, 12])
    view["resolution"] = r if rng.random() < 0.5 else {"x": r, "y": rng.choice([1, 2, 3, 5, 8])}
    if view["dx"] is None and rng.random() < 0.8:
        view["dx"] = rng.choice([smin * rng.uniform(0.3, 2), smax * rng.uniform(1, 4), m["scale"] * rng.uniform(0.5, 1.5)])
    rx = view["resolution"] if isinstance(view["resolution"], int) else view["resolution"]["x"]
    ry = view["resolution"] if isinstance(view["resolution"], int) else view["resolution"]["y"]
    wdx = view["dx"] if view["dx"] is not None else m["scale"]
    wdy = view["dy"] if view["dy"] is not None else wdx
    pix = 0.5 * (wdx / rx + wdy / ry)
    k = rng.choice(["pixel", "few-pixels", "thin-vs-cells", "cells", "domain"])
    if k == "pixel":
        dz = pix * rng.uniform(0.8, 1.6)
    elif k == "few-pixels":
        dz = pix * rng.uniform(1.5, 6)
    elif k == "thin-vs-cells":
        dz = smin * rng.uniform(0.05, 0.5)
    elif k == "cells":
        dz = smax * rng.uniform(0.5, 3)
    else:
        dz = m["scale"] * rng.uniform(0.5, 1.0)
    dz = max(dz, 0.8 * pix)
    zres = None
    if rng.random() < 0.5 or dz / pix > 10:
        zres = rng.choice([1, 2, 3, 4, 6])
    if zres is not None:
        if isinstance(view["resolution"], int):
            view["resolution"] = {"x": view["resolution"], "y": view["resolution"]}
        view["resolution"]["z"] = zres
    layers = c03.gen_layers(rng, m["ndim"])
    for l in layers:
        # a Layer may carry its own reduction, which then beats the one of the call
        if rng.random() < 0.25:
            l["op"] = rng.choice(OPS + ["sum", "mean"])
    case = {"mesh": m, "view": view, "direction": gen_direction(rng, m["ndim"]), "layers": layers, "call_mode": None,
            "dz": dz, "dz_unit": rng.choice([m["unit"], m["unit"], "cm", "m"]), "operation": rng.choice(OPS + ["sum", "mean"]),
            "sched": draw_schedule_config(rng, maxT=8), "knob": rng.choice([None, None, None, 1024, 16384])}
    r_ = rng.random()
    if r_ < 0.10:
        case["prior"], case["prior_dz_factor"] = "dz", rng.choice([0.6, 0.8, 1.3, 1.7, 3.0])
    elif r_ < 0.22:
        case["prior"] = True
    elif r_ < 0.32:
        # the same Layer objects were mapped before with another call-level reduction
        case["prior"], case["prior_op"] = "op", rng.choice([o for o in OPS + ["sum", "mean"] if o != case["operation"]])
    case["later"] = rng.random() < 0.1
    return case


def describe(case):
    if case.get("large"):
        return case
    return c03.describe(case)


def execute_large(case, stats):
    """Sample boxes the simulator cannot reach (~10^6 samples): shipped front-end, compiled kernel, one numba thread, against a
    vectorised column reference on a uniform 8^3 mesh (cell look-up by index).  Columns with a sample within 1e-9 of a cell face
    are not judged."""
    import numba
    import osyris

    from sim.mapmodel import build_mesh, cell_values, direction_arg, mesh_datagroup

    lg = case["large"]
    m = {"wseed": 11, "ndim": 3, "levelmin": 3, "levelmax": 3, "refine_p": 0.0, "maxcells": 600, "holes": 0.0, "hole_box": False, "unit": "cm", "scale": 1.0}
    viol = []
    out = {"violations": viol, "nontrivial": True, "signature": "large:" + core.digest(lg)[:12]}
    cells = build_mesh(m)
    dg = mesh_datagroup(m, cells)
    dens = cell_values(m, cells)["density"]
    grid = np.full((8, 8, 8), np.nan)
    for c, val in zip(cells, dens):
        ix, iy, iz = (int(c["pos"][d] * 8) for d in range(3))
        grid[ix, iy, iz] = val
    kw = {"dx": lg["dx"] * osyris.units("cm"), "dz": lg["dz"] * osyris.units("cm"), "origin": osyris.Vector(*lg["origin"], unit="cm"),
          "direction": direction_arg(lg["direction"]), "resolution": {"x": lg["nx"], "y": lg["ny"], "z": lg["nz"]}, "operation": lg["op"], "plot": False}
    old = numba.get_num_threads()
    numba.set_num_threads(1)
    try:
        with np.errstate(all="ignore"), warnings.catch_warnings():
            warnings.simplefilter("ignore")
            plot = osyris.map(dg.layer("density"), **kw)
    except Exception as e:
        viol.append({"class": "frontend-exception", "clause": "large", "key": {"class": "frontend-exception", "clause": "large"}, "detail": {"error": f"{type(e).__name__}: {e}"[:300]}})
        return out
    finally:
        numba.set_num_threads(old)
    nuv, bad = c03.get_basis({"mesh": m, "direction": lg["direction"]}, dg, kw)
    if bad is not None:
        viol.append({"class": "basis", "clause": bad, "key": {"class": "basis", "clause": bad}, "detail": {}})
        return out
    n_, u, v = nuv
    xs, ys = np.asarray(plot.x, dtype=float), np.asarray(plot.y, dtype=float)
    nz, dz = lg["nz"], lg["dz"]
    zs = -0.5 * dz + (np.arange(nz) + 0.5) * dz / nz
    data = plot.layers[0]["data"]
    got, mask = np.ma.getdata(data), np.ma.getmaskarray(data)
    if got.shape != (lg["ny"], lg["nx"]):
        viol.append({"class": "structure", "clause": "shape", "key": {"class": "structure", "clause": "shape"}, "detail": {"shape": list(got.shape)}})
        return out
    P = (np.asarray(lg["origin"], dtype=float)[None, None, None, :] + xs[None, None, :, None] * u[None, None, None, :]
         + ys[None, :, None, None] * v[None, None, None, :] + zs[:, None, None, None] * n_[None, None, None, :])
    F = P * 8.0
    amb = np.any(np.abs(F - np.round(F)) < 1e-8, axis=3)
    I = np.floor(F).astype(np.int64)
    inside = np.all((I >= 0) & (I < 8), axis=3)
    Ic = np.clip(I, 0, 7)
    samples = np.where(inside, grid[Ic[..., 0], Ic[..., 1], Ic[..., 2]], np.nan)
    with np.errstate(all="ignore"), warnings.catch_warnings():
        warnings.simplefilter("ignore")
        want = getattr(np, lg["op"])(samples, axis=0)
    if lg["op"] in ("sum", "nansum"):
        want = want * (dz / nz)
    judged = ~np.any(amb, axis=0)
    stats.inc("probe.large_thick_map_compiled_run")
    stats.inc("steps.depth_samples_large", int(samples.size))
    bad_mask = judged & (mask != np.isnan(want))
    bad_val = judged & ~mask & ~np.isnan(want) & ~np.isclose(got, want, rtol=1e-9, atol=1e-12)
    for name, b in (("mask@large", bad_mask), ("reduced-value@large", bad_val)):
        if np.any(b):
            j, i = [int(q) for q in np.argwhere(b)[0]]
            viol.append({"class": "column", "clause": name, "key": {"class": "column", "clause": name},
                         "detail": {"pixel": [j, i], "n_pixels_wrong": int(b.sum()), "operation": lg["op"], "nz": nz,
                                    "got": None if mask[j, i] else float(got[j, i]), "want": None if np.isnan(want[j, i]) else float(want[j, i])}})
            break
    return out


def execute(case, stats):
    if case.get("large"):
        return execute_large(case, stats)
    import osyris

    viol = []
    res = {"violations": viol, "nontrivial": False}

    def V(cls, clause, detail):
        viol.append({"class": cls, "clause": clause, "key": {"class": cls, "clause": clause}, "detail": detail})

    m = case["mesh"]
    cells, dg, loc, vals, origin_s = c03.setup(case)
    su = UNIT_CM[m["unit"]]
    extra = {"dz": case["dz"] * su / UNIT_CM[case["dz_unit"]] * osyris.units(case["dz_unit"]), "operation": case["operation"]}
    runs = []
    dry_sim = None
    kw = None
    state = None
    if case.get("prior") == "dz":
        # the same view mapped before with another thickness (same objects, same window, same resolution)
        state = c03.prior_call(case, dg, extra=dict(extra, dz=extra["dz"] * case.get("prior_dz_factor", 1.4)), same_view=True)
        stats.inc("probe.earlier_map_of_the_same_view_with_another_thickness")
    elif case.get("prior") == "op":
        state = c03.prior_call(case, dg, extra=dict(extra, operation=case["prior_op"]), same_view=True)
        stats.inc("probe.earlier_map_of_the_same_layers_with_another_call_level_reduction")
    elif case.get("prior"):
        state = c03.prior_call(case, dg, extra=extra)
        stats.inc("probe.earlier_map_with_the_same_layer_objects")
    for phase in ("t1", "sched"):
        def factory():
            return c03.make_sim(case, None if phase == "t1" else dry_sim)

        try:
            plot, calls, kw = c03.call_map(case, dg, factory, extra=extra, state=state)
        except KernelError as e:
            V("kernel-exception", phase, {"error": str(e)[:300]})
            return res
        except HarnessError:
            raise
        except RuntimeError as e:
            if "No cells were selected" in str(e):
                # acceptable only if no cell intersects the slab inside the window
                kw = c03.view_kwargs(case["view"], m)
                kw["direction"] = c03.direction_arg(case["direction"])
                nuv, bad = c03.get_basis(case, dg, kw)
                if bad is None and slab_sees_cell(case, cells, loc, origin_s, nuv):
                    V("column", "raised-although-cells-in-slab", {"error": str(e)[:120], "dz": case["dz"], "min_cell": min(c["dx"] for c in cells)})
                else:
                    stats.inc("ambig.empty_map_raised")
                res["signature"] = None
                return res
            V("frontend-exception", phase, {"error": f"{type(e).__name__}: {e}"[:300]})
            return res
        except Exception as e:
            import traceback

            if isinstance(e, ValueError) and "zero-size array" in str(e) and case["view"]["dx"] is None:
                # automatic window with a slab thinner than half a pixel: no depth sample at all (below "one pixel")
                stats.inc("ambig.slab_below_one_pixel_of_automatic_window")
                res["signature"] = None
                return res
            V("frontend-exception", phase, {"error": f"{type(e).__name__}: {e}"[:300], "tb": traceback.format_exc()[-400:]})
            return res
        if len(calls) != 1:
            # the front-end does not go through the evaluate_on_grid seam as known here: nothing to schedule,
            # the returned Plot is judged at user level only
            stats.inc("probe.kernel_seam_not_used")
            calls = [{"args": None, "result": None, "sim": Sim(T=1)}]
        runs.append((plot, calls[0]))
        if phase == "t1":
            dry_sim = calls[0]["sim"]
            if case["sched"]["T"] == 1 and "decisions" not in case:
                runs.append(runs[0])
                break
    (p1, c1), (p2, c2) = runs
    sim2 = c2["sim"]
    stats.inc("steps.memory_events", c1["sim"].nevents + (sim2.nevents if sim2 is not c1["sim"] else 0))
    stats.inc("steps.context_switches", sim2.switches)
    stats.inc(f"swarm.T={case['sched']['T']}")
    stats.inc(f"swarm.operation={case['operation']}")
    stats.inc(f"swarm.ndim={m['ndim']}")
    sig, nshared = sim2.conflict_signature()
    if nshared:
        stats.add("conflict_signatures", sig)  # distinct orders of (worker, load|store) on elements touched by >= 2 workers
    for k, v in sim2.probe.items():
        stats.inc("probe." + k, v)
    res["decisions"] = sim2.decisions
    res["kernel_args"] = c1["args"]
    nuv, bad = c03.get_basis(case, dg, kw)
    if bad is not None:
        V("basis", bad, {})
        return res
    if case.get("later"):
        # the returned Plot is looked at only after a later thick map of the same shape (another origin) was made
        v_ = dict(case["view"])
        v_["origin"] = [o + 0.11 * m["scale"] for o in v_["origin"]] if v_["origin"] is not None else [0.41 * m["scale"]] * 3
        if case["view"]["origin"] is None:
            v_["origin_unit"] = m["unit"]
        try:
            c03.call_map(dict(case, view=v_, knob=None), dg, lambda: Sim(T=1), extra=extra)
        except HarnessError:
            raise
        except Exception:
            pass
        stats.inc("probe.plot_judged_after_a_later_map_of_the_same_shape")
    info = judge_thick(case, p1, c1, cells, loc, vals, origin_s, nuv, V, stats, dg)
    ks_ = kernel(MODNAME, KATTR)[2]
    if case.get("knob") and ks_ is not None and ks_.knobs:
        stats.inc("probe.run_with_shrunken_kernel_knobs")
        if viol:
            stats.inc("ambig.knob_variant_changes_sequential_result")
            return execute(dict(case, knob=None), stats)
    if info is None:
        return res
    if not viol and c2 is not c1:
        info2 = judge_thick(case, p2, c2, cells, loc, vals, origin_s, nuv, V, stats, dg)
        if info2 is not None and not viol and info["n_amb"] == 0:
            for k in range(len(p1.layers)):
                a, b = p1.layers[k]["data"], p2.layers[k]["data"]
                ma, mb = np.ma.getmaskarray(a), np.ma.getmaskarray(b)
                if not np.array_equal(ma, mb) or not np.array_equal(np.ma.getdata(a)[~ma], np.ma.getdata(b)[~mb], equal_nan=True):  # (shown pixels may be NaN when layers reduce differently)
                    V("schedule-dependence", "pixels", {"layer": k})
    wl = core.digest({k: case[k] for k in ("mesh", "view", "direction", "layers", "dz", "dz_unit", "operation")})[:16]
    res["signature"] = wl + ":" + sig
    res["nontrivial"] = bool(info["n_good"] >= 4 and info["nz"] >= 2 and info["n_hit"] > 0)
    if case["dz"] < min(c["dx"] for c in cells):
        stats.inc("probe.slab_thinner_than_smallest_cell")
    return res


def slab_sees_cell(case, cells, loc, origin_s, nuv):
    n, u, v = nuv
    view = case["view"]
    dz = case["dz"]
    if view["dx"] is None:
        for c in cells:
            p = np.zeros(3)
            p[: len(c["pos"])] = c["pos"]
            if abs((p - origin_s) @ n) < 0.5 * dz:
                return True
        return False
    res = view["resolution"]
    nx = res if isinstance(res, int) else res.get("x", 256)
    ny = res if isinstance(res, int) else res.get("y", 256)
    dx = view["dx"]
    dy = view["dy"] if view["dy"] is not None else dx
    pix = 0.5 * (dx / nx + dy / ny)
    nz = res.get("z") if isinstance(res, dict) and "z" in res else max(1, int(round(dz / pix)))
    xs = -0.5 * dx + (np.arange(nx) + 0.5) * dx / nx
    ys = -0.5 * dy + (np.arange(ny) + 0.5) * dy / ny
    zs = -0.5 * dz + (np.arange(nz) + 0.5) * dz / nz
    eps = 1e-9 * max(dx, dy, dz, max(c["dx"] for c in cells))
    for z in zs:
        for y in ys:
            for x in xs:
                inside, touch = loc.locate(origin_s + x * u + y * v + z * n, eps)
                if len(inside):
                    return True
    return False


def judge_thick(case, plot, call, cells, loc, vals, origin_s, nuv, V, stats, dg):
    import osyris

    m = case["mesh"]
    n, u, v = nuv
    su = UNIT_CM[m["unit"]]
    view = case["view"]
    map_unit = view["window_unit"] if view["dx"] is not None else m["unit"]
    f = UNIT_CM[map_unit] / su
    xs = np.asarray(plot.x, dtype=float) * f
    ys = np.asarray(plot.y, dtype=float) * f
    dz = case["dz"]
    # number of depth samples: observed at the seam, must be an admissible choice
    try:
        nz_obs = int(call["args"]["grid_positions_in_original_basis"].shape[0])
    except Exception:
        nz_obs = None  # not observable (seam unused or kernel signature changed): every admissible count is tried below
    res = view["resolution"]
    if isinstance(res, dict) and "z" in res:
        admissible = {res["z"]}
    else:
        if len(xs) > 1:
            px = abs(xs[1] - xs[0])
        else:
            px = (view["dx"] if view["dx"] is not None else None)
        if len(ys) > 1:
            py = abs(ys[1] - ys[0])
        else:
            py = (view["dy"] if view["dy"] is not None else view["dx"])
        if px is None or py is None:
            admissible = None
        else:
            if len(xs) == 1 and view["dx"] is not None:
                px = view["dx"]
            if len(ys) == 1 and view["dx"] is not None:
                py = view["dy"] if view["dy"] is not None else view["dx"]
            pix = 0.5 * (px + py)
            r = dz / pix
            cand = {max(1, int(np.floor(r))), int(np.ceil(r)), int(round(r))}
            best = min(abs(dz / k - pix) for k in cand if k >= 1)
            admissible = {k for k in cand if k >= 1 and abs(dz / k - pix) <= best * (1 + 1e-9) + 1e-15}
            admissible.add(int(round(r)))
            if abs(r - np.floor(r) - 0.5) < 1e-9:
                admissible |= {int(np.floor(r)), int(np.ceil(r))}
    if view["dx"] is None:
        admissible = None  # automatic window: pixel size derived from the data extent, judged through the returned centres only
    if nz_obs is None:
        if admissible is None:
            stats.inc("ambig.depth_resolution_not_observable")
            return {"n_good": 0, "n_amb": 0, "nz": 0, "n_hit": 0}
        # accept the first admissible count under which the whole map is consistent
        last = None
        for cand in sorted(admissible):
            trial = []
            call2 = {"args": {"grid_positions_in_original_basis": np.zeros((cand, 1, 1, 3))}}
            info = judge_thick(case, plot, call2, cells, loc, vals, origin_s, nuv, lambda *a: trial.append(a), core.Stats(), dg)
            if not trial:
                return info
            last = trial
        for a in last:
            V(*a)
        return None
    if admissible is not None and nz_obs not in admissible:
        V("depth-grid", "number-of-samples", {"observed": nz_obs, "admissible": sorted(admissible), "dz": dz})
        return None
    nz = nz_obs
    if nz == 0:
        # the slab is thinner than half a pixel of an automatic window: below the statement's "one pixel"
        px_ = abs(xs[1] - xs[0]) if len(xs) > 1 else None
        py_ = abs(ys[1] - ys[0]) if len(ys) > 1 else None
        pp = [q for q in (px_, py_) if q is not None]
        if view["dx"] is None and (not pp or dz < 0.75 * (sum(pp) / len(pp))):
            stats.inc("ambig.slab_below_one_pixel_of_automatic_window")
            return {"n_good": 0, "n_amb": 0, "nz": 0, "n_hit": 0}
        V("depth-grid", "number-of-samples", {"observed": 0, "dz": dz})
        return None
    zs = -0.5 * dz + (np.arange(nz) + 0.5) * dz / nz
    zstep = dz / nz
    scale = max(float(np.max(np.abs(xs))), float(np.max(np.abs(ys))), dz, max(c["dx"] for c in cells), float(np.max(np.abs(origin_s))))
    eps = 1e-9 * scale
    nl = len(case["layers"])
    if len(plot.layers) != nl:
        V("structure", "layer-count", {"got": len(plot.layers)})
        return None
    # every layer is reduced with its own operation if it has one, with the call's otherwise
    ops = [l.get("op") or case["operation"] for l in case["layers"]]
    uniform_ops = len(set(ops)) == 1
    if not uniform_ops:
        stats.inc("probe.layers_with_different_reductions_in_one_call")
    spatial = osyris.units(m["unit"])
    for k, (layer, l) in enumerate(zip(plot.layers, case["layers"])):
        base = dg[l["key"]].unit
        want = base * spatial if ops[k] in ("sum", "nansum") else base
        if layer["unit"] != want:
            V("unit", "layer-unit", {"layer": k, "unit": str(layer["unit"]), "want": str(want), "operation": ops[k], "call_operation": case["operation"]})
            return None
    n_good = n_amb = n_hit = 0
    datas = [np.ma.getdata(l["data"]) for l in plot.layers]
    masks = [np.ma.getmaskarray(l["data"]) for l in plot.layers]
    for k in range(nl):
        want_shape = (len(ys), len(xs)) + ((3,) if datas[k].ndim == 3 else ())
        if datas[k].shape != want_shape:
            V("structure", "shape", {"layer": k, "shape": list(datas[k].shape), "want": list(want_shape)})
            return None
    for j, y in enumerate(ys):
        for i, x in enumerate(xs):
            col = []
            amb = False
            for z in zs:
                p = origin_s + x * u + y * v + z * n
                inside, touch = loc.locate(p, eps)
                if len(touch) == 0:
                    col.append(None)
                elif len(inside) == 1 and len(touch) == 1:
                    col.append(int(inside[0]))
                else:
                    amb = True
                    break
            if amb:
                n_amb += 1
                continue
            n_good += 1
            if any(c is not None for c in col):
                n_hit += 1
            for k in range(nl):
                samples = []
                for c in col:
                    if c is None:
                        e = c03.expected_layers(case, vals, 0, u, v)[k] * np.nan
                    else:
                        e = c03.expected_layers(case, vals, c, u, v)[k]
                    samples.append(np.atleast_1d(e))
                arr = np.stack(samples, axis=0)  # (nz, ncomp)
                op = ops[k]
                with np.errstate(all="ignore"), warnings.catch_warnings():
                    warnings.simplefilter("ignore")
                    exp = getattr(np, op)(arr, axis=0)
                if op in ("sum", "nansum"):
                    exp = exp * zstep
                # the mask follows the last layer's reduced value
                lastarr = np.stack([np.atleast_1d(c03.expected_layers(case, vals, c if c is not None else 0, u, v)[-1] * (1.0 if c is not None else np.nan)) for c in col], axis=0)
                with np.errstate(all="ignore"), warnings.catch_warnings():
                    warnings.simplefilter("ignore")
                    last = getattr(np, ops[-1])(lastarr, axis=0)
                want_masked = bool(np.isnan(np.atleast_1d(last)[-1]))
                got_masked = bool(np.all(masks[k][j, i]))
                if not uniform_ops:
                    # which pixels are masked when the layers reduce differently is not part of the statement: shown values are judged
                    if got_masked or np.any(np.isnan(exp)):
                        continue
                    want_masked = False
                if want_masked != got_masked:
                    V("column", "mask", {"layer": k, "pixel": [j, i], "want_masked": want_masked, "column": col, "operation": op, "nz": nz})
                    return None
                if want_masked:
                    continue
                got = np.atleast_1d(np.asarray(datas[k][j, i], dtype=float))
                if got.shape != exp.shape or not np.allclose(got, exp, rtol=1e-10, atol=1e-12, equal_nan=True):
                    V("column", "reduced-value", {"layer": k, "pixel": [j, i], "got": got.tolist(), "want": exp.tolist(), "operation": op, "call_operation": case["operation"], "nz": nz,
                                                  "zstep": zstep, "column": col})
                    return None
    stats.inc("ambig.pixel_columns_with_face_sample", n_amb)
    stats.inc("steps.pixel_columns_judged", n_good)
    return {"n_good": n_good, "n_amb": n_amb, "nz": nz, "n_hit": n_hit}


def measure(case):
    if case.get("large"):
        return (case["large"]["nx"] * case["large"]["ny"] * case["large"]["nz"],)
    return c03.measure(case) + (int(case["operation"] != "sum") + sum(1 for l in case["layers"] if l.get("op")), int(case["dz_unit"] != case["mesh"]["unit"]))


def canonical(case, viol):
    if case.get("large") or "decisions" in case or case["sched"]["T"] == 1:
        return case
    r = execute(case, core.Stats())
    c = dict(case)
    c["decisions"] = list(r.get("decisions", []))
    return c


def reductions(case, viol):
    if case.get("large"):
        return
    for c in c03.reductions(case, viol):
        if c["mesh"].get("scale") != case["mesh"].get("scale") or c["mesh"]["unit"] != case["mesh"]["unit"]:
            sc = case["mesh"]["scale"]
            c = dict(c, dz=case["dz"] / sc, dz_unit="cm")
        r = c["view"]["resolution"]
        if isinstance(r, int) and isinstance(case["view"]["resolution"], dict) and "z" in case["view"]["resolution"]:
            c = dict(c, view=dict(c["view"], resolution={"x": r, "y": r, "z": case["view"]["resolution"]["z"]}))
        yield c
    if case["operation"] != "sum":
        yield dict(case, operation="sum")
    for k, l in enumerate(case["layers"]):
        if l.get("op"):
            d = dict(l)
            del d["op"]
            yield dict(case, layers=case["layers"][:k] + [d] + case["layers"][k + 1:])
    r = case["view"]["resolution"]
    if isinstance(r, dict) and r.get("z", 1) > 1:
        yield dict(case, view=dict(case["view"], resolution=dict(r, z=1)))
        yield dict(case, view=dict(case["view"], resolution=dict(r, z=2)))


def finalize(tier, base_seed, stats, viols):
    import random

    from sim.kseam import kernel as _k

    nanchor = 10 if tier == "quick" else 100
    checked = 0
    for r in range(nanchor):
        rng = random.Random(core.H(base_seed, PROPERTY, "anchor", r))
        case = generate(rng, tier)
        case["sched"] = {"T": 1, "partition": {"kind": "static-equal"}, "policy": {"kind": "seq"}, "sched_seed": 0}
        res = execute(case, core.Stats())
        if res["violations"] or res.get("kernel_args") is None:
            continue
        args = res["kernel_args"]
        mod, orig, ks = _k(MODNAME, KATTR)
        sim_out = ks.run(Sim(T=1), **args)
        real_out = compiled_call(MODNAME, KATTR, args, nthreads=1)
        if not same_results(sim_out, real_out):
            raise HarnessError(f"model divergence: simulated T=1 != compiled T=1 for anchor case {r}")
        checked += 1
    # ---- sample boxes beyond the simulator (~10^6 samples): shipped front-end + compiled kernel, one thread
    import sys

    nlarge = 0
    for k in range(3 if tier == "quick" else 9):
        rng = random.Random(core.H(base_seed, PROPERTY, "large", k))
        dirs = [{"kind": "str", "s": rng.choice(["z", "x", "yzx"])}, {"kind": "vec", "v": [round(rng.uniform(-1, 1), 3) or 0.3 for _ in range(3)]}]
        case = {"large": {"dx": round(rng.uniform(0.4, 1.2), 4), "dz": round(rng.uniform(0.2, 0.9), 4), "origin": [round(rng.uniform(0.3, 0.7), 5) + 1.37e-6 for _ in range(3)],
                          "direction": dirs[k % 2], "nx": 128, "ny": rng.choice([96, 128]), "nz": rng.choice([70, 100, 90]), "op": ["mean", "nanmean", "sum", "nanmax", "min"][k % 5]},
                "run": -1 - k, "seed": 0}
        res = core.safe_execute(sys.modules[__name__], case, stats)
        nlarge += 1
        for v_ in res["violations"]:
            viols.append({"case": case, "violation": v_})
    return {"fidelity_anchor": {"workloads_compiled_T1_equal_simulated_T1": checked, "attempted": nanchor},
            "large_maps": {"runs": nlarge, "how": "shipped front-end, compiled kernel, 1 numba thread, vectorised column reference, ~10^6 depth samples each"}}
