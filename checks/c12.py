"""C12 -- a level-limited load returns the tree truncated at that level, without holes.

Engine W, fault-free world search: the stub ranks write a world in which every
cell (leaf *and* refined) stores a unique value; the real loader reads it with
a level predicate (alone or ANDed with value / position predicates, with other
groups present); the result must be the model tree truncated at the highest
accepted level L, filtered by the predicates.
"""
import importlib
import warnings

import numpy as np

from sim import core
from sim.fsseam import FsSeam
from sim.preds import (CALLABLE_KINDS, as_callable, gen_dx_pred, gen_level_pred, gen_position_pred, gen_value_pred, interval_accepts, interval_func, level_accepts, level_func, value_accepts,
                       value_func)
from sim.wcheck import Disk, compare_full, gen_world_params
from checks.c01 import world_reductions

PROPERTY = "C12"
ENGINE = "W"
DEFAULT_SEED = 1212
RUNS = {"quick": 1500, "thorough": 90000}
JOBS = {"quick": 8, "thorough": 16}
SEARCH_SPACE = "world states x level predicates (<=, <, interval, ==, !=) x optional value/position predicates x presence of other groups (no faults)"
RULE = ("one run = one world + one level predicate (optionally ANDed with one value and/or one position predicate), loaded by a fresh dataset (in 30% of the runs a second fresh dataset is given the same select dictionary object again); "
        "distinct = hash of (world, predicates); non-trivial = the highest accepted level L is below levelmax and at least one level-L cell is refined on disk")
ASSUMPTIONS = [
    "a predicate accepting no level is outside the property (the loader cannot define L) and is not generated",
    "compact position boxes on Hilbert worlds are included (level cap and CPU pre-selection together); interval boxes contain at least one finest-level centre per axis",
    "thresholds of value/position predicates never coincide with a stored value or a cell centre",
]
REAL_STUB = {
    "real": ["osyris.io Loader (lmax derivation, level loop), AmrReader leaf rule, find_max_amr_level, predicates on unit-carrying buffers"],
    "stub": ["the RAMSES ranks that wrote the snapshot (sim/ramses.py)"],
}


def prepare(tier):
    warnings.filterwarnings("ignore")
    importlib.import_module("osyris")


def generate(rng, tier):
    p = gen_world_params(rng, tier, max_cells=rng.choice([100, 300, 800]), min_levels=2)
    if p["levelmax"] > 6:
        p["levelmax"] = 6
        p["levelmin"] = min(p["levelmin"], 6)
    preds = {"level": gen_level_pred(rng, p["levelmin"], p["levelmax"]), "values": [], "positions": []}
    if rng.random() < 0.35:
        preds["values"].append(gen_value_pred(rng, p, ncells_hint=rng.choice([8, 64, 300, 2000])))
    if rng.random() < 0.15:
        # the cell size is a mesh variable like any other: a predicate on it filters rows, it does not move the cut level
        preds["values"].append(gen_dx_pred(rng, p["levelmin"], p["levelmax"]))
    r = rng.random()
    if r < 0.3:
        pp = gen_position_pred(rng, p["ndim"])
        # the precondition of the CPU pre-selection: at least one finest-level centre satisfies the predicate
        n = 2 ** p["levelmax"]
        cen = [(i + 0.5) / n for i in range(n)]
        if any({"gt": c > pp["frac"], "lt": c < pp["frac"], "ge": c >= pp["frac"], "le": c <= pp["frac"]}[pp["op"]] for c in cen):
            preds["positions"].append(pp)
    elif r < 0.45 and p["ordering"] == "hilbert" and p["ndim"] == 3:
        # a compact box on all three axes: the CPU pre-selection is active together with the level cap
        from sim.preds import gen_interval

        kind = rng.choice(["leaf", "few", "few"])
        preds["intervals"] = [gen_interval(rng, c, p["levelmax"], kind=kind) for c in "xyz"]
    # "again": the caller keeps the select dictionary and passes the same object to a second load (a fresh dataset of the same output)
    return {"world": p, "preds": preds, "also": rng.choice([None, None, "part_off", "sink_off", "mesh_vars"]), "again": rng.random() < 0.3,
            # predicates may be any callable: plain function, functools.partial, object with __call__, bound method
            "callable": rng.choice(CALLABLE_KINDS),
            "before": gen_level_pred(rng, p["levelmin"], p["levelmax"]) if rng.random() < 0.25 else None}


def describe(case):
    return case


def execute(case, stats):
    viol = []
    res = {"violations": viol, "nontrivial": False}
    p = case["world"]
    pr = case["preds"]

    def V(cls, clause, detail):
        viol.append({"class": cls, "clause": clause, "key": {"class": cls, "clause": clause}, "detail": detail})

    with Disk(p) as disk:
        w = disk.world
        accepted = [l for l in range(1, w.levelmax + 1) if level_accepts(pr["level"], l)]
        if not accepted:
            res["signature"] = None
            return res
        L = max(accepted)
        ck = case.get("callable")
        if ck not in (None, "function"):
            stats.inc("probe.predicates_given_as_" + ck)
        sel = {"level": as_callable(level_func(pr["level"]), ck)}
        for s in pr["values"] + pr["positions"]:
            sel[s["var"]] = as_callable(value_func(s, w), ck)
        for s in pr.get("intervals", []):
            sel[s["var"]] = as_callable(interval_func(s, w), ck)
        select = {"mesh": sel}
        if case["also"] == "part_off":
            select["part"] = False
        elif case["also"] == "sink_off":
            select["sink"] = False
        sel_items = None
        ds0 = None
        if case.get("before"):
            # the dataset object has already made a load with another level predicate (not judged here)
            stats.inc("probe.earlier_load_with_another_level_predicate_on_the_dataset")
            try:
                ds0, _ = disk.load(select={"mesh": {"level": level_func(case["before"])}})
            except Exception:
                ds0 = None
        for attempt in (["first", "again"] if case.get("again") else ["first"]):
            if attempt == "again":
                stats.inc("probe.second_load_with_the_same_select_object")
            n0 = len(viol)
            _one_load(case, stats, disk, select, ds0 if attempt == "first" else None, L, attempt, V, res)
            if len(viol) > n0:
                for v in viol[n0:]:
                    if attempt == "again":
                        v["clause"] = v["clause"] + "@again"
                        v["key"] = dict(v["key"], clause=v["clause"])
                break
    res["signature"] = core.digest(case)[:20]
    return res


def _one_load(case, stats, disk, select, sel_items, L, attempt, V, res):
    """`sel_items`: the dataset object to load on (None: a fresh one)."""
    p = case["world"]
    pr = case["preds"]
    w = disk.world
    viol = res["violations"]
    if True:
        try:
            seam = FsSeam()
            ds, out = disk.load(ds=sel_items, seam=seam, select=select)
        except Exception as e:
            import traceback

            V("load-exception", "level-select", {"error": core.scrub(f"{type(e).__name__}: {e}")[:300], "tb": core.scrub(traceback.format_exc())[-500:], "L": L})
            return res
        stats.inc("steps.files_opened", len(seam.trace))
        trunc = w.leaves(lmax=L)
        expect = [c for c in trunc if level_accepts(pr["level"], c["level"]) and all(value_accepts(s, w, c) for s in pr["values"] + pr["positions"])
                  and all(interval_accepts(s, w, c) for s in pr.get("intervals", []))]
        if pr.get("intervals"):
            stats.inc("probe.level_cap_with_position_box_on_hilbert_world")
        refined_at_L = sum(1 for c in trunc if c["level"] == L and c["refined"])
        res["nontrivial"] = bool(L < w.levelmax and refined_at_L > 0)
        if refined_at_L:
            stats.inc("probe.level_L_cell_refined_on_disk")
        if L < w.levelmax:
            stats.inc("probe.cap_below_levelmax")
        stats.inc("swarm.level_pred=" + pr["level"]["kind"])
        if pr["values"]:
            stats.inc("probe.with_value_predicate")
        if pr["positions"]:
            stats.inc("probe.with_position_predicate")
        if ds.meta.get("lmax") != L:
            V("level-cap", "meta-lmax", {"meta_lmax": ds.meta.get("lmax"), "L": L, "levelmax": w.levelmax, "pred": pr["level"]})
        if not expect:
            # nothing qualifies: an empty (or key-less) mesh group is the only acceptable outcome
            if "mesh" in ds and "level" in ds["mesh"] and len(ds["mesh"]["level"]):
                V("rows", "extra", {"n": len(ds["mesh"]["level"]), "expected": 0})
            return res
        for cls, clause, detail in compare_full(ds, w, expect_rows=expect):
            V(cls, clause, dict(detail, L=L, levelmax=w.levelmax))
        if not viol and all(level_accepts(pr["level"], l) for l in range(1, L + 1)) and not pr["values"] and not pr["positions"] and not pr.get("intervals"):
            # tiling: the rows cover the domain exactly once
            dx = np.asarray(ds["mesh"]["dx"].values, dtype=float)
            box = w.boxlen * w.unit_l
            vol = float(np.sum((dx / box) ** w.ndim))
            if abs(vol - 1.0) > 1e-9:
                V("tiling", "volume", {"covered": vol, "L": L})
            stats.inc("probe.tiling_checked")
        if not viol and ds.meta.get("ncells") != len(ds["mesh"]["level"]):
            V("meta", "ncells", {"meta": int(ds.meta.get("ncells", -1)), "rows": len(ds["mesh"]["level"])})
    return res


def measure(case):
    p = case["world"]
    pr = case["preds"]
    return (p["ncpu"], p["levelmax"], p["ndim"], len(pr["values"]) + len(pr["positions"]) + len(pr.get("intervals", [])), len(p["hydro_vars"]), p["maxcells"], p["nboundary"],
            int(bool(p["grav"])) + int(bool(p["rt_vars"])) + int(p["part"] is not None) + int(p["sink"] is not None),
            int(p["units"] != [1.0, 1.0, 1.0]), int(p["ghost_p"] * 10), int(case["also"] is not None), int(pr["level"]["kind"] != "le"), int(bool(case.get("again"))) + int(case.get("callable") not in (None, "function")) + int(bool(case.get("before"))))


def reductions(case, viol):
    pr = case["preds"]
    for q in world_reductions(case["world"]):
        if any(s["var"] != "dx" and s["var"] not in q["hydro_vars"] for s in pr["values"]):
            continue
        if any("xyz".index(s["var"][-1]) >= q["ndim"] for s in pr["positions"] + pr.get("intervals", [])):
            continue
        if pr.get("intervals") and q["levelmax"] != case["world"]["levelmax"]:
            continue
        yield dict(case, world=q)
    if pr["values"]:
        yield dict(case, preds=dict(pr, values=[]))
    if pr["positions"]:
        yield dict(case, preds=dict(pr, positions=[]))
    if pr.get("intervals"):
        yield dict(case, preds=dict(pr, intervals=[]))
    if case["also"]:
        yield dict(case, also=None)
    if case.get("again"):
        yield dict(case, again=False)
    if case.get("callable") not in (None, "function"):
        yield dict(case, callable="function")
    if case.get("before"):
        yield dict(case, before=None)
    if pr["level"]["kind"] != "le":
        for k in range(1, case["world"]["levelmax"] + 1):
            yield dict(case, preds=dict(pr, level={"kind": "le", "k": k}))
