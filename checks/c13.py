"""C13 -- loading a subset of groups or variables equals projecting the full load.

Engine W, fault-free world search + file-presence configurations.  The same
world is loaded twice by fresh datasets -- fully, and with a group/variable
selection -- and the selective result must be the projection of the full one
(element for element, same order); the expected key set comes from an
independent implementation of the naming rule.  Optional files removed from a
world must give the same result as a world that never had them.
"""
import glob
import importlib
import os
import warnings

import numpy as np

from sim import core
from sim.fsseam import FsSeam
from sim.preds import gen_interval, interval_func
from sim.ramses import World
from sim.wcheck import Disk, compare_full, components, gen_world_params, merge_names
from checks.c01 import world_reductions

PROPERTY = "C13"
ENGINE = "W"
DEFAULT_SEED = 1313
RUNS = {"quick": 1500, "thorough": 90000}
JOBS = {"quick": 8, "thorough": 16}
SEARCH_SPACE = "world states x group/variable selections (lists, switched-off groups, per-group variable lists incl. component subsets) x optional-file presence configurations (no faults)"
RULE = ("one run = one world (mesh with hydro/grav/rt, particles, sinks) + one selection, loaded by two fresh datasets (full, selective; 25%: the select object was used by an earlier load); "
        "distinct = hash of (world, selection, removed files); non-trivial = the selection skips at least one variable or group that the "
        "full load reads while still reading at least one, in a world with >= 2 levels")
ASSUMPTIONS = [
    "variable lists are only defined for the amr/hydro/grav/rt/part descriptors; the sink group can only be switched on or off",
    "derived variables: 'mass' is expected iff density and dx are both loaded, 'B_field' iff both B_left and B_right are assembled vectors",
    "a file-presence configuration removes files the loader treats as optional: all grav files, the rt or part descriptor, the sink csv",
    "in 15% of the runs the restricted load is made on a dataset object that already holds the full load; groups the call does not ask for are then the ones kept from that load and are not judged",
]
REAL_STUB = {
    "real": ["osyris.io Loader and all readers (skip branches, step_over, reader initialisation)", "make_vector_arrays", "config.additional_variables"],
    "stub": ["the RAMSES ranks that wrote the snapshot (sim/ramses.py)", "removal of optional files"],
}


def prepare(tier):
    warnings.filterwarnings("ignore")
    importlib.import_module("osyris")


def all_raw(p):
    w = {"amr": ["level", "cpu", "dx"] + ["position_" + c for c in "xyz"[: p["ndim"]]], "hydro": list(p["hydro_vars"])}
    if p["grav"]:
        w["grav"] = ["grav_potential"] + ["grav_acceleration_" + c for c in "xyz"[: p["ndim"]]]
    if p["rt_vars"]:
        w["rt"] = list(p["rt_vars"])
    return w


def generate(rng, tier):
    p = gen_world_params(rng, tier, max_cells=rng.choice([60, 200, 600]), need_part=rng.random() < 0.6, need_sink=rng.random() < 0.4)
    if p["levelmax"] > 5:
        p["levelmax"] = 5
        p["levelmin"] = min(p["levelmin"], 5)
    before_box = None
    if rng.random() < 0.1 and p["part"] is not None and not p.get("siblings"):
        # a deeper Hilbert world on several ranks, particles on every rank; the dataset object has already made a load
        # restricted to a small box (which pre-selects CPU files)
        p.update(ndim=3, ordering="hilbert", levelmin=3, levelmax=rng.choice([3, 3, 4]), maxcells=rng.choice([700, 900]), ncpu=rng.choice([3, 4, 6, 8]),
                 bound_keys=None, nboundary=0)
        p["bound_frac"] = sorted(rng.random() for _ in range(p["ncpu"] - 1))
        p["part"]["counts"] = [rng.choice([1, 2, 3, 5]) for _ in range(p["ncpu"])]
        p["part"]["columns"] = [c for c in p["part"]["columns"] if not c[0].startswith(("position_", "velocity_"))]
        p["part"]["columns"] = [["position_" + c, "d"] for c in "xyz"] + p["part"]["columns"]
        kind = rng.choice(["tiny", "leaf"])
        before_box = [gen_interval(rng, c, p["levelmax"], kind=kind) for c in "xyz"]
    elif rng.random() < 0.1:
        before_box = [gen_interval(rng, c, p["levelmax"]) for c in "xyz"[: p["ndim"]] if rng.random() < 0.7] or None
    mesh_raw = [n for names in all_raw(p).values() for n in names]
    kinds = ["mesh"] + (["part"] if p["part"] else []) + (["sink"] if p["sink"] else [])
    form = rng.choice(["list", "dict", "dict", "dict", "none"])
    sel = {"form": form}
    if form == "list":
        k = [g for g in ["mesh", "part", "sink"] if rng.random() < 0.5]
        sel["groups"] = k or ["mesh"]
        rng.shuffle(sel["groups"])
    elif form == "dict":
        d = {}
        for g in ["mesh", "part", "sink"]:
            r = rng.random()
            if r < 0.2:
                d[g] = False
            elif r < 0.3:
                d[g] = True
            elif r < 0.8 and g != "sink":
                if g == "mesh":
                    pool = mesh_raw
                else:
                    pool = [c[0] for c in p["part"]["columns"]] if p["part"] else ["mass"]
                kk = rng.choice([1, 1, 2, 3, 5, 8, 0])  # (0: the empty subset -- the group comes back without members)
                names = rng.sample(pool, min(kk, len(pool)))
                if kk and rng.random() < 0.5 and g == "mesh":
                    for must in ("level", "dx") + tuple("position_" + c for c in "xyz"[: p["ndim"]]):
                        if must not in names:
                            names.append(must)
                d[g] = names
        sel["groups"] = d
    absent = []
    r = rng.random()
    if r < 0.30:
        cand = (["grav"] if p["grav"] else []) + (["rt"] if p["rt_vars"] else []) + (["part"] if p["part"] else []) + (["sink"] if p["sink"] else [])
        if cand:
            absent = [rng.choice(cand)]
    case = {"world": p, "select": sel, "absent": absent, "warm": rng.random() < 0.25, "before_box": before_box}
    if before_box is None and rng.random() < 0.15:
        # the restricted load is made on a dataset object that already holds the full load
        case["on_full"] = True
    return case


def describe(case):
    return case


def to_select(sel):
    if sel["form"] == "none":
        return None
    import copy

    return copy.deepcopy(sel["groups"])  # the library gets its own objects: the case document stays as generated


def locate(full_group, raw_all, ndim, raw):
    """component Array of the full load that holds raw variable `raw`"""
    merged = merge_names(raw_all, ndim)
    for key, fam in merged.items():
        if raw in fam:
            if key not in full_group:
                return None
            comps = components(full_group[key])
            return comps[fam.index(raw)] if len(fam) == len(comps) else None
    return None


def same_array(a, b):
    va, vb = np.asarray(a.values), np.asarray(b.values)
    return va.shape == vb.shape and bool(np.array_equal(va, vb)) and a.unit == b.unit


def execute(case, stats):
    import osyris

    viol = []
    res = {"violations": viol, "nontrivial": False}
    p = case["world"]
    sel = case["select"]

    def V(cls, clause, detail):
        viol.append({"class": cls, "clause": clause, "key": {"class": cls, "clause": clause}, "detail": detail})

    with Disk(p) as disk:
        w = disk.world
        num = str(p["nout"]).zfill(5)
        outdir = os.path.join(disk.dir, "output_" + num)
        q = dict(p)
        for a in case["absent"]:
            if a == "grav":
                for f in glob.glob(os.path.join(outdir, "grav_*")):
                    os.remove(f)
                q["grav"] = False
            elif a == "rt":
                os.remove(os.path.join(outdir, "rt_file_descriptor.txt"))
                q["rt_vars"] = None
            elif a == "part":
                os.remove(os.path.join(outdir, "part_file_descriptor.txt"))
                q["part"] = None
            elif a == "sink":
                os.remove(os.path.join(outdir, f"sink_{num}.csv"))
                q["sink"] = None
            stats.inc("fault.optional_file_absent_" + a)
        wq = World(q) if case["absent"] else w
        try:
            seam_f = FsSeam()
            full, _ = disk.load(seam=seam_f)
        except Exception as e:
            import traceback

            V("load-exception", "full", {"error": core.scrub(f"{type(e).__name__}: {e}")[:300], "tb": core.scrub(traceback.format_exc())[-500:]})
            return res
        if case["absent"]:
            # the world with the optional file removed must look like the world that never had it
            for cls, clause, detail in compare_full(full, wq):
                V("absent-file", f"{cls}:{clause}", dict(detail, absent=case["absent"]))
            for g, present in (("part", q["part"] is not None), ("sink", q["sink"] is not None)):
                if not present and g in full and len(full[g].keys()):
                    V("absent-file", "group-from-nowhere", {"group": g})
            if viol:
                return res
        select = to_select(sel)
        if case.get("warm") and select is not None:
            # the caller's select object (list / dict with inner lists) was already used for a load by another dataset
            stats.inc("probe.select_object_used_by_an_earlier_load")
            try:
                disk.load(select=select)
            except Exception:
                pass  # the judged load below reports
        ds0 = None
        if case.get("before_box"):
            stats.inc("probe.dataset_already_made_a_box_restricted_load")
            try:
                ds0, _ = disk.load(select={"mesh": {s_["var"]: interval_func(s_, w) for s_ in case["before_box"]}})
                for g_ in list(ds0.keys()):
                    del ds0[g_]  # the user drops the groups of that load; what the next load returns is judged as usual
            except Exception:
                ds0 = None
        if case.get("on_full") and ds0 is None:
            stats.inc("probe.restricted_load_on_a_dataset_holding_the_full_load")
            try:
                ds0, _ = disk.load()
            except Exception:
                ds0 = None
        try:
            seam_s = FsSeam()
            sub, _ = disk.load(ds=ds0, seam=seam_s, **({"select": select} if select is not None else {}))
        except Exception as e:
            import traceback

            V("load-exception", "selective", {"error": core.scrub(f"{type(e).__name__}: {e}")[:300], "select": select, "tb": core.scrub(traceback.format_exc())[-500:]})
            return res
        stats.inc("steps.files_opened", len(seam_f.trace) + len(seam_s.trace))
        # ---- which groups / raw names were requested
        kinds_present = ["mesh"] + (["part"] if q["part"] is not None else []) + (["sink"] if q["sink"] is not None else [])
        req = {}
        for g in kinds_present:
            if sel["form"] == "none":
                req[g] = True
            elif sel["form"] == "list":
                req[g] = g in sel["groups"]
            else:
                req[g] = sel["groups"].get(g, True)
        raw_mesh = [n for names in all_raw(q).values() for n in names]
        raw_part = [c[0] for c in q["part"]["columns"]] if q["part"] is not None else []
        skipped = read = 0
        for g in kinds_present:
            want_raw_all = {"mesh": raw_mesh, "part": raw_part, "sink": None}[g]
            r = req[g]
            if r is False:
                skipped += 1
                if case.get("on_full"):
                    continue  # (a group this call does not ask for is the one kept from the earlier full load)
                if g in sub and (g != "mesh" or len(sub[g].keys())):
                    V("projection", "excluded-group-present", {"group": g, "keys": list(sub[g].keys())})
                continue
            if g not in sub:
                V("projection", "requested-group-missing", {"group": g, "groups": list(sub.keys())})
                continue
            if g not in full:
                continue
            if g == "sink" or r is True:
                read += 1
                fk, sk = list(full[g].keys()), list(sub[g].keys())
                if sorted(fk) != sorted(sk):
                    V("projection", "keys", {"group": g, "sub": sk, "full": fk})
                    continue
                for k in fk:
                    for a, b in zip(components(sub[g][k]), components(full[g][k])):
                        if not same_array(a, b):
                            V("projection", "values", {"group": g, "key": k})
                continue
            names = [n for n in r if n in want_raw_all]
            if len(names) < len(want_raw_all):
                skipped += 1
            if names:
                read += 1
            nrows_full = len(components(full[g][next(iter(full[g].keys()))])[0].values) if len(full[g].keys()) else 0
            if g == "part" and nrows_full == 0:
                continue
            want = merge_names(names, q["ndim"])
            derived = set()
            if g == "mesh":
                if "density" in names and "dx" in names:
                    derived.add("mass")
                if "B_left" in want and "B_right" in want and len(want["B_left"]) > 1 and len(want["B_right"]) > 1:
                    derived.add("B_field")
            have = set(sub[g].keys())
            for k in want:
                if k not in have:
                    V("projection", "requested-variable-missing", {"group": g, "key": k, "keys": sorted(have), "select": names})
            all_merged = merge_names(want_raw_all, q["ndim"])
            stored_names = set(all_merged) | set(want_raw_all)
            for k in sorted(have):
                # only keys that stand for stored variables can be "excluded but present"
                if k not in want and k not in derived and k in stored_names:
                    V("projection", "excluded-variable-present", {"group": g, "key": k, "select": names})
            for k in sorted(derived):
                if k not in have:
                    V("projection", "derived-missing", {"group": g, "key": k})
            if viol:
                continue
            for k, fam in want.items():
                comps = components(sub[g][k])
                if (len(fam) > 1) != isinstance(sub[g][k], osyris.Vector) or len(comps) != len(fam):
                    V("projection", "vector-assembly", {"group": g, "key": k, "raw": fam})
                    continue
                for comp, raw in zip(comps, fam):
                    ref = locate(full[g], want_raw_all, q["ndim"], raw)
                    if ref is None:
                        V("projection", "not-in-full-load", {"group": g, "raw": raw})
                    elif not same_array(comp, ref):
                        va, vb = np.asarray(comp.values), np.asarray(ref.values)
                        i = int(np.argmax(va != vb)) if va.shape == vb.shape and va.size else -1
                        V("projection", "values", {"group": g, "raw": raw, "shape_sub": list(va.shape), "shape_full": list(vb.shape), "row": i,
                                                   "got": float(va[i]) if i >= 0 else None, "want": float(vb[i]) if i >= 0 else None,
                                                   "unit_sub": str(comp.unit), "unit_full": str(ref.unit), "select": names})
            for k in sorted(derived):
                if k in have and k in full[g]:
                    for a, b in zip(components(sub[g][k]), components(full[g][k])):
                        if not same_array(a, b):
                            V("projection", "derived-values", {"group": g, "key": k})
            if g == "mesh" and not viol and all(n in names for n in ["level", "dx"] + ["position_" + c for c in "xyz"[: q["ndim"]]]):
                for cls, clause, detail in compare_full(sub, wq, raw_names=set(names)):
                    V("projection-vs-model", f"{cls}:{clause}", detail)
                stats.inc("probe.selection_with_geometry_checked_against_model")
        nl = len({c["level"] for c in w.leaves()})
        res["nontrivial"] = bool(skipped > 0 and read > 0 and nl >= 2)
        if skipped:
            stats.inc("probe.selection_skips_something")
    stats.inc(f"swarm.select_form={sel['form']}")
    res["signature"] = core.digest(case)[:20]
    return res


def measure(case):
    p = case["world"]
    s = case["select"]
    ssize = 0 if s["form"] == "none" else len(core.dumps(s))
    npart = sum(p["part"]["counts"]) if p["part"] else 0
    return (p["ncpu"], p["levelmax"], p["ndim"], len(p["hydro_vars"]), int(bool(p["grav"])) + int(bool(p["rt_vars"])) + int(p["part"] is not None) + int(p["sink"] is not None),
            ssize, len(case["absent"]), p["nboundary"], p["maxcells"], npart, int(p["units"] != [1.0, 1.0, 1.0]), int(p["ghost_p"] * 10), int(bool(case.get("warm"))) + int(bool(case.get("before_box"))))


def reductions(case, viol):
    p = case["world"]
    s = case["select"]
    if case.get("warm"):
        yield dict(case, warm=False)
    if case.get("before_box"):
        yield dict(case, before_box=None)
    if case.get("on_full"):
        yield dict(case, on_full=False)
    used = set()
    if s["form"] == "dict":
        for v in s["groups"].values():
            if isinstance(v, list):
                used.update(v)
    for q in world_reductions(p):
        if any(a == "grav" and not q["grav"] or a == "rt" and not q["rt_vars"] or a == "part" and q["part"] is None or a == "sink" and q["sink"] is None
               for a in case["absent"]):
            continue
        yield dict(case, world=q)
    if s["form"] == "dict":
        for g, v in s["groups"].items():
            d = dict(s["groups"])
            del d[g]
            yield dict(case, select={"form": "dict", "groups": d} if d else {"form": "none"})
            if isinstance(v, list) and len(v) > 1:
                for i in range(len(v)):
                    d2 = dict(s["groups"])
                    d2[g] = v[:i] + v[i + 1:]
                    yield dict(case, select={"form": "dict", "groups": d2})
    if s["form"] == "list" and len(s["groups"]) > 1:
        for i in range(len(s["groups"])):
            yield dict(case, select={"form": "list", "groups": s["groups"][:i] + s["groups"][i + 1:]})
    if case["absent"]:
        yield dict(case, absent=[])
