"""C14 -- particle and sink tables are loaded completely, typed and scaled.

Engine W, fault-free world search + file-presence configurations: stub ranks
write particle files (0..30 particles per rank, d/i/b columns in any order,
header records of varying length) and a sink CSV (code-unit or legacy
bracket dialect, possibly empty or absent); the real loader reads them.
"""
import importlib
import re
import warnings

import numpy as np

from sim import core
from sim.fsseam import FsSeam
from sim.ramses import code_factor, family_of, physical
from sim.wcheck import Disk, components, gen_world_params, merge_names
from checks.c01 import world_reductions

PROPERTY = "C14"
ENGINE = "W"
DEFAULT_SEED = 1414
RUNS = {"quick": 2000, "thorough": 120000}
JOBS = {"quick": 8, "thorough": 16}
SEARCH_SPACE = "states of the two-party world: particle population per rank x descriptor (types, order) x header sizes x sink table (columns, dialect, empty/missing) x ndim x units (no faults)"
RULE = ("one run = one world with a particle population and/or a sink file, loaded once (optionally with sortby on a particle key; 20% after an earlier load in the same process); "
        "distinct = hash of the world parameters; non-trivial = particles spread over >= 2 ranks with >= 2 column types, or a sink table with >= 2 rows")
ASSUMPTIONS = [
    "particle file layout after RAMSES backup_part: ncpu, ndim, npart, five further header records of arbitrary length, then one record per descriptor column",
    "sort keys are columns with unique values (ties would make the permutation ambiguous)",
    "sink CSV numbers are compared after parsing the text the writer produced (10 significant digits)",
    "with an explicit cpu_list the files may be concatenated in the listed or in ascending rank order",
]
REAL_STUB = {
    "real": ["osyris.io PartReader, SinkReader, Loader", "unit library / config", "Datagroup.sortby"],
    "stub": ["the RAMSES ranks that wrote particle files and the sink CSV (sim/ramses.py)"],
}


def prepare(tier):
    warnings.filterwarnings("ignore")
    importlib.import_module("osyris")


def generate(rng, tier):
    p = gen_world_params(rng, tier, max_cells=rng.choice([30, 100, 300]), need_part=rng.random() < 0.8, need_sink=rng.random() < 0.6)
    if p["levelmax"] > 4:
        p["levelmax"] = 4
        p["levelmin"] = min(p["levelmin"], 4)
    case = {"world": p, "sortby": None, "sink_missing": False, "warm": rng.random() < 0.2, "reload": rng.choice([None, None, None, None, None, None, None, "same", "same", "sink_only"])}
    if p["part"] is not None and rng.random() < 0.4:
        uniq = [c[0] for c in p["part"]["columns"] if c[1] in ("d", "i") and not re.search(r"_[xyz]$", c[0])]
        if uniq:
            case["sortby"] = rng.choice(uniq)
            # the caller's sortby dictionary may name further groups, in any order, which this load does not produce
            # (no sink file in the output; the mesh switched off)
            extra = []
            if p["sink"] is None and rng.random() < 0.4:
                extra.append(["sink", "id"])
            if rng.random() < 0.3:
                extra.append(["mesh", "level"])
            if extra:
                case["sortby_extra"] = {"entries": extra, "before": rng.random() < 0.7}
    if p["ncpu"] >= 2 and rng.random() < 0.15:
        # only some ranks' files are read, in the order the caller lists them
        case["cpu_list"] = rng.sample(range(1, p["ncpu"] + 1), rng.randrange(1, p["ncpu"] + 1))
    if rng.random() < 0.25:
        case["nout_arg"] = "minus1"  # the output is opened as "the last one" (-1)
    if p["part"] is not None and rng.random() < 0.3:
        # only some of the particle variables are asked for (as a list, or the others switched off one by one): the
        # records of the others are skipped, whatever their on-disk type
        names = [c[0] for c in p["part"]["columns"]]
        keep = [n for n in names if rng.random() < 0.6 or n == case["sortby"]] or [names[0]]
        case["part_select"] = {"form": rng.choice(["list", "off"]), "keep": keep}
    return case


def describe(case):
    return case


def parse_code_units(expr):
    """'m l**2 t**-1' -> exponents of (m, l, t); '1' -> zeros"""
    e = {"m": 0, "l": 0, "t": 0}
    for tok in expr.split():
        if tok == "1":
            continue
        m = re.fullmatch(r"([mlt])(?:\*\*(-?\d+))?", tok)
        if not m:
            raise ValueError(expr)
        e[m.group(1)] += int(m.group(2) or 1)
    return e


def execute(case, stats):
    import osyris
    from pint.errors import DimensionalityError

    viol = []
    res = {"violations": viol, "nontrivial": False}
    p = case["world"]
    if case.get("nout_arg") == "minus1":
        p = dict(p, siblings=[s for s in p.get("siblings", []) if s < p["nout"]])
        stats.inc("probe.opened_as_the_last_output")

    def V(cls, clause, detail):
        viol.append({"class": cls, "clause": clause, "key": {"class": cls, "clause": clause}, "detail": detail})

    with Disk(p) as disk:
        w = disk.world
        kw = {}
        if case.get("nout_arg") == "minus1":
            kw["nout"] = -1
        if case.get("cpu_list"):
            kw["cpu_list"] = list(case["cpu_list"])
            stats.inc("probe.explicit_cpu_list")
        if case["sortby"]:
            kw["sortby"] = {"part": case["sortby"]}
            sx = case.get("sortby_extra")
            if sx:
                stats.inc("probe.sortby_names_groups_not_produced")
                ent = {g: k for g, k in sx["entries"]}
                kw["sortby"] = dict(list(ent.items()) + [("part", case["sortby"])]) if sx["before"] else dict([("part", case["sortby"])] + list(ent.items()))
                if "mesh" in ent:
                    kw["select"] = {"mesh": False}
        ps = case.get("part_select") if p["part"] is not None else None
        if ps:
            stats.inc("probe.particle_variable_subset=" + ps["form"])
            allnames = [c[0] for c in p["part"]["columns"]]
            kw["select"] = dict(kw.get("select", {}), part=list(ps["keep"]) if ps["form"] == "list" else {n: False for n in allnames if n not in ps["keep"]})
        if case.get("warm"):
            # an earlier load by another dataset in this process, with the same argument objects
            stats.inc("probe.earlier_load_in_this_process")
            try:
                disk.load(**kw)
            except Exception:
                pass  # the judged load below reports
        try:
            ds, out = disk.load(seam=FsSeam(), **kw)
        except Exception as e:
            import traceback

            V("load-exception", "load", {"error": core.scrub(f"{type(e).__name__}: {e}")[:300], "tb": core.scrub(traceback.format_exc())[-600:]})
            return res
        for attempt in (("first", "reload") if case.get("reload") else ("first",)):
            if attempt == "reload":
                # one more call on the same dataset object (the same one, or one that reads the sink file only and keeps
                # the particle group): the groups are judged again
                stats.inc("probe.second_load_on_the_dataset=" + str(case["reload"]))
                try:
                    if case["reload"] == "sink_only":
                        disk.load(ds=ds, select=["sink"])
                    else:
                        disk.load(ds=ds, **kw)
                except Exception as e:
                    V("load-exception", "reload", {"error": core.scrub(f"{type(e).__name__}: {e}")[:300]})
                    break
            n0 = len(viol)
            ud, ul, ut = w.unit_d, w.unit_l, w.unit_t
            # ------------------------------------------------------------ particles
            if p["part"] is not None:
                cols = w.part_columns()
                counts = w.part_counts()
                cpus_read = list(case["cpu_list"]) if case.get("cpu_list") else list(range(1, w.ncpu + 1))
                ids = [pid for cpu in cpus_read for pid in w.part_ids(cpu)]
                asc = [pid for cpu in sorted(cpus_read) for pid in w.part_ids(cpu)]
                if asc != ids and not case["sortby"] and "part" in ds:
                    # the files may be concatenated in the order listed or in ascending rank order (the statement does not say):
                    # whichever order the first stored column shows is the one all columns are judged in
                    c0 = cols[0]
                    k0 = next((k_ for k_, r_ in merge_names([c_[0] for c_ in cols if not case.get("part_select") or c_[0] in case["part_select"]["keep"]], w.ndim).items()), None)
                    try:
                        raw0 = merge_names([c_[0] for c_ in cols if not case.get("part_select") or c_[0] in case["part_select"]["keep"]], w.ndim)[k0][0]
                        j0 = [c_[0] for c_ in cols].index(raw0)
                        obs0 = physical(components(ds["part"][k0])[0].values, components(ds["part"][k0])[0].unit, family_of(raw0))
                        want_asc = np.array([w.part_value(j0, cols[j0][1], pid) for pid in asc], dtype=float) * code_factor(family_of(raw0), ud, ul, ut)
                        if obs0.shape == want_asc.shape and np.allclose(obs0, want_asc, rtol=1e-11, atol=0):
                            ids = asc
                    except Exception:
                        pass
                ntot = len(ids)
                stats.inc("probe.rank_with_zero_particles", sum(1 for c in counts if c == 0))
                if ntot == 0:
                    stats.inc("probe.world_with_no_particles_at_all")
                types = {t for _, t in cols}
                if sum(1 for c in counts if c > 0) >= 2 and len(types) >= 2:
                    res["nontrivial"] = True
                if "part" not in ds:
                    V("part", "missing-group", {"groups": list(ds.keys())})
                else:
                    part = ds["part"]
                    want = merge_names([c[0] for c in cols if not ps or c[0] in ps["keep"]], w.ndim)
                    colidx = {c[0]: (i, c[1]) for i, c in enumerate(cols)}
                    if ps:
                        for c_ in cols:
                            if c_[0] not in ps["keep"] and c_[0] in part:
                                V("part", "excluded-variable-present", {"key": c_[0]})
                    perm = np.arange(ntot)
                    if case["sortby"] and ntot:
                        ic, typ = colidx[case["sortby"]]
                        keyvals = np.array([w.part_value(ic, typ, pid) for pid in ids], dtype=float)
                        perm = np.argsort(keyvals, kind="stable")
                    if ntot == 0:
                        # nothing stored: any (possibly empty) representation with zero rows is fine
                        for k in part.keys():
                            if len(components(part[k])[0].values.shape) and components(part[k])[0].values.shape[0] != 0:
                                V("part", "rows-from-nowhere", {"key": k})
                    else:
                        for key, raws in want.items():
                            if key not in part:
                                V("part", "missing-key", {"key": key, "keys": list(part.keys())})
                                continue
                            obj = part[key]
                            comps = components(obj)
                            if (len(raws) > 1) != isinstance(obj, osyris.Vector) or len(comps) != len(raws):
                                V("part", "vector-assembly", {"key": key, "raw": raws})
                                continue
                            for comp, raw in zip(comps, raws):
                                ic, typ = colidx[raw]
                                stored = np.array([w.part_value(ic, typ, pid) for pid in ids], dtype=float)[perm]
                                fam = family_of(raw)
                                try:
                                    obs = physical(comp.values, comp.unit, fam)
                                except DimensionalityError:
                                    V("part", "unit-label", {"key": raw, "unit": str(comp.unit), "family": fam})
                                    continue
                                wantv = stored * code_factor(fam, ud, ul, ut)
                                if obs.shape != wantv.shape:
                                    V("part", "row-count", {"key": raw, "rows": list(obs.shape), "want": ntot})
                                elif not np.allclose(obs, wantv, rtol=1e-11, atol=0):
                                    i = int(np.argmax(~np.isclose(obs, wantv, rtol=1e-11, atol=0)))
                                    V("part", "values", {"key": raw, "type": typ, "row": i, "got": float(obs[i]), "want": float(wantv[i]),
                                                         "sorted": bool(case["sortby"])})
                        for k in part.keys():
                            if k not in want:
                                stats.inc("probe.extra_non_stored_key_in_part_group")  # e.g. a derived variable: not judged
                    if ds.meta.get("nparticles") != ntot:
                        V("part", "meta-nparticles", {"meta": int(ds.meta.get("nparticles", -1)), "rows": ntot})
            elif "part" in ds and len(ds["part"].keys()):
                V("part", "group-from-nowhere", {"keys": list(ds["part"].keys())})
            # ------------------------------------------------------------ sinks
            if p["sink"] is not None:
                t = w.sink_table()
                if "sink" not in ds:
                    V("sink", "missing-group", {"groups": list(ds.keys())})
                elif t is None:
                    stats.inc("probe.empty_sink_file")
                    if len(ds["sink"].keys()):
                        V("sink", "empty-file-not-empty-group", {"keys": list(ds["sink"].keys())})
                else:
                    names, uexprs, rows = t
                    sink = ds["sink"]
                    rows = [[float(f"{v:.10e}") if n != "id" else float(int(v)) for n, v in zip(names, r)] for r in rows]
                    if len(rows) >= 2:
                        res["nontrivial"] = True
                    if len(rows) == 1:
                        stats.inc("probe.single_sink_row")
                    want = merge_names(names, w.ndim)
                    for key, raws in want.items():
                        if key not in sink:
                            V("sink", "missing-key", {"key": key, "keys": list(sink.keys())})
                            continue
                        obj = sink[key]
                        comps = components(obj)
                        if (len(raws) > 1) != isinstance(obj, osyris.Vector) or len(comps) != len(raws):
                            V("sink", "vector-assembly", {"key": key, "raw": raws})
                            continue
                        for comp, raw in zip(comps, raws):
                            ic = names.index(raw)
                            col = np.array([r[ic] for r in rows])
                            ue = uexprs[ic]
                            if "[" in ue:
                                stats.inc("probe.legacy_bracket_unit")
                                lab = ue.strip("[]")
                                wantu = osyris.units("dimensionless" if lab == "1" else lab)
                                if comp.unit != wantu:
                                    V("sink", "unit-label", {"key": raw, "unit": str(comp.unit), "want": lab})
                                elif np.asarray(comp.values).shape != col.shape or not np.allclose(np.asarray(comp.values, dtype=float), col, rtol=1e-12, atol=0):
                                    V("sink", "values", {"key": raw, "got": np.asarray(comp.values).tolist()[:3], "want": col.tolist()[:3]})
                            else:
                                e = parse_code_units(ue)
                                factor = (ud * ul ** 3) ** e["m"] * ul ** e["l"] * ut ** e["t"]
                                target = osyris.units(f"g**{e['m']} * cm**{e['l']} * s**{e['t']}")
                                try:
                                    q = (1.0 * comp.unit).to(target).magnitude
                                except DimensionalityError:
                                    V("sink", "unit-label", {"key": raw, "unit": str(comp.unit), "want": ue})
                                    continue
                                obs = np.asarray(comp.values, dtype=float) * q
                                if obs.shape != col.shape:
                                    V("sink", "row-count", {"key": raw, "rows": list(obs.shape), "want": len(rows)})
                                elif not np.allclose(obs, col * factor, rtol=1e-11, atol=0):
                                    V("sink", "values", {"key": raw, "unit": ue, "got": obs.tolist()[:3], "want": (col * factor).tolist()[:3]})
                    for k in sink.keys():
                        if k not in want:
                            stats.inc("probe.extra_non_stored_key_in_sink_group")
            elif "sink" in ds:
                V("sink", "group-from-nowhere", {"keys": list(ds["sink"].keys())})
            if len(viol) > n0:
                if attempt == "reload":
                    for v_ in viol[n0:]:
                        v_["clause"] += "@reload"
                        v_["key"] = dict(v_["key"], clause=v_["clause"])
                break
    stats.inc(f"swarm.ndim={p['ndim']}")
    res["signature"] = core.digest(case)[:20]
    return res


def measure(case):
    p = case["world"]
    npart = sum(p["part"]["counts"]) if p["part"] else 0
    ncol = len(p["part"]["columns"]) if p["part"] else 0
    ns = (p["sink"]["nsink"] + len(p["sink"]["columns"])) if p["sink"] else 0
    return (p["ncpu"], npart, ncol, ns, p["levelmax"], p["ndim"], int(case["sortby"] is not None), len(p["hydro_vars"]), p["nboundary"],
            int(p["units"] != [1.0, 1.0, 1.0]), p["maxcells"], int(bool(p["grav"])) + int(bool(p["rt_vars"])), int(bool(case.get("warm"))) + int(bool(case.get("reload"))) + int(bool(case.get("part_select"))) + int(bool(case.get("sortby_extra"))) + int(bool(case.get("nout_arg"))) + int(bool(case.get("cpu_list"))))


def reductions(case, viol):
    p = case["world"]
    if case.get("warm"):
        yield dict(case, warm=False)
    if case.get("reload"):
        yield dict(case, reload=None)
    if case.get("part_select"):
        c = dict(case)
        del c["part_select"]
        yield c
    if case.get("sortby_extra"):
        c = dict(case)
        del c["sortby_extra"]
        yield c
    if case.get("nout_arg"):
        c = dict(case)
        del c["nout_arg"]
        yield c
    if case.get("cpu_list"):
        c = dict(case)
        del c["cpu_list"]
        yield c
    for q in world_reductions(p):
        # keep the part/sink population that the violation is about
        if viol["class"] == "part" and q.get("part") is None:
            continue
        if viol["class"] == "sink" and q.get("sink") is None:
            continue
        yield dict(case, world=q)
    if p["part"]:
        pp = p["part"]
        for i, c in enumerate(pp["counts"]):
            if c > 0:
                for nc in (0, 1, c - 1):
                    if nc < c:
                        yield dict(case, world=dict(p, part=dict(pp, counts=pp["counts"][:i] + [nc] + pp["counts"][i + 1:])))
        for i in range(len(pp["columns"])):
            if len(pp["columns"]) > 2 and pp["columns"][i][0] != case["sortby"]:
                yield dict(case, world=dict(p, part=dict(pp, columns=pp["columns"][:i] + pp["columns"][i + 1:])))
    if p["sink"] and not p["sink"].get("empty"):
        sp = p["sink"]
        if sp["nsink"] > 1:
            yield dict(case, world=dict(p, sink=dict(sp, nsink=1)))
        for i in range(len(sp["columns"])):
            if len(sp["columns"]) > 2:
                yield dict(case, world=dict(p, sink=dict(sp, columns=sp["columns"][:i] + sp["columns"][i + 1:])))
    if case["sortby"]:
        yield dict(case, sortby=None)
