"""C15 -- the outcome of load() does not depend on earlier loads on the same dataset.

Engine H over Engine W: one world written by the stub ranks, one long-lived
RamsesDataset, a history of 2..8 load() calls (full, group subsets, variable
subsets, value/position/level predicates, cpu_list, sortby).  In the fault
batch a call may be *interrupted* (KeyboardInterrupt / OSError raised from its
k-th file open, or a user predicate raising at its k-th evaluation) and the
history continues on the same object.  Oracle: after every successful call the
groups it produced equal those of a fresh dataset given the same arguments;
other groups are bit-identical to before; an interrupted call changes no group.
"""
import importlib
import warnings

import numpy as np

from sim import core
from sim.core import HarnessError
from sim.fsseam import FsSeam
from sim.history import list_reductions
from sim.preds import (gen_interval, gen_level_pred, gen_value_pred, interval_func, level_func, value_func)
from sim.wcheck import Disk, components, gen_world_params
from checks.c01 import world_reductions

PROPERTY = "C15"
ENGINE = "H+W"
DEFAULT_SEED = 1515
RUNS = {"quick": 800, "thorough": 40000}
JOBS = {"quick": 8, "thorough": 16}
SEARCH_SPACE = "histories of load() calls on one long-lived dataset x interrupt faults (k-th file open raises KeyboardInterrupt/EIO, predicate raises at its k-th evaluation)"
RULE = ("one run = one world + one history of 2..8 load() calls on one RamsesDataset (11 call kinds incl. a predicate no cell satisfies), each compared with a fresh dataset given the same arguments and with the counts in the metadata; "
        "distinct = hash of (world, history); non-trivial = >= 2 successful calls of different kinds, at least one of which sets per-call reader state "
        "(position/level predicate, cpu_list, variable subset) or the history contains a fired interrupt followed by a successful call")
ASSUMPTIONS = [
    "a call that also fails on a fresh dataset is skipped (its arguments are outside the loader's domain), the reused dataset must then fail too or succeed with the fresh result -- only 'reused fails, fresh succeeds' and value differences are violations",
    "after an interrupted call only the groups are judged (unchanged); metadata is judged again after the next successful call",
    "predicates raise RuntimeError at a chosen evaluation; interrupts are raised from the loader's own open() calls",
    "in 15% of the histories the caller keeps one predicate object per variable and changes what it accepts between calls; the reference dataset gets a new object with the current behaviour",
]
REAL_STUB = {
    "real": ["osyris.RamsesDataset / Loader / readers with their per-dataset lifetime state", "config.additional_variables"],
    "stub": ["the RAMSES ranks (sim/ramses.py)", "file-open failures (fs seam)", "user predicates that raise"],
}


def prepare(tier):
    warnings.filterwarnings("ignore")
    importlib.import_module("osyris")


# --------------------------------------------------------------------------


def gen_call(rng, p):
    kinds = ["full", "groups", "vars", "pred_pos", "pred_val", "pred_level", "cpu_list", "sortby", "mesh_off", "part_only", "pred_none"]
    k = rng.choice(kinds)
    c = {"kind": k}
    mesh_raw = ["level", "cpu", "dx"] + ["position_" + x for x in "xyz"[: p["ndim"]]] + list(p["hydro_vars"])
    if k == "groups":
        g = [x for x in ["mesh", "part", "sink"] if rng.random() < 0.5] or ["part"]
        c["groups"] = g
    elif k == "vars":
        c["mesh"] = rng.sample(mesh_raw, rng.randrange(1, min(5, len(mesh_raw)) + 1))
        if p["part"] and rng.random() < 0.5:
            cols = [x[0] for x in p["part"]["columns"]]
            c["part"] = rng.sample(cols, rng.randrange(1, min(3, len(cols)) + 1))
    elif k == "pred_pos":
        kind = rng.choice(["tiny", "leaf", "few", "wide"])
        c["intervals"] = [gen_interval(rng, x, p["levelmax"], kind=kind) for x in "xyz"[: p["ndim"]] if rng.random() < 0.8] or [gen_interval(rng, "x", p["levelmax"])]
    elif k == "pred_val":
        c["values"] = [gen_value_pred(rng, p, ncells_hint=rng.choice([8, 64, 300]))]
    elif k == "pred_level":
        c["level"] = gen_level_pred(rng, p["levelmin"], p["levelmax"])
    elif k == "pred_none":
        # a predicate no cell satisfies (below every stored value): a fresh dataset returns an empty mesh group
        c["values"] = [{"var": rng.choice(list(p["hydro_vars"])), "op": rng.choice(["lt", "le"]), "code": -1.0e15}]
    elif k == "cpu_list":
        c["cpu_list"] = rng.sample(range(1, p["ncpu"] + 1), rng.randrange(1, p["ncpu"] + 1))
    elif k == "sortby":
        c["sortby"] = {}
        if rng.random() < 0.6:
            c["sortby"]["mesh"] = "density" if "density" in p["hydro_vars"] else "dx"
        if p["part"]:
            uniq = [x[0] for x in p["part"]["columns"] if x[1] in ("d", "i") and x[0][-2:] not in ("_x", "_y", "_z")]
            if uniq:
                c["sortby"]["part"] = rng.choice(uniq)
        if p["sink"] and not p["sink"].get("empty") and rng.random() < 0.5:
            names = [x[0] for x in p["sink"]["columns"] if x[0] not in ("x", "y", "z", "vx", "vy", "vz")]
            if names:
                c["sortby"]["sink"] = rng.choice(names)
        if not c["sortby"]:
            c["sortby"]["mesh"] = "dx"
    # a sortby dictionary shared by all the caller's loads: it may name groups that this call does not load
    if k in ("groups", "part_only", "mesh_off", "vars", "pred_val") and rng.random() < 0.3:
        sb = {}
        if rng.random() < 0.7:
            sb["mesh"] = "density" if "density" in p["hydro_vars"] else "dx"
        if p["part"]:
            uniq = [x[0] for x in p["part"]["columns"] if x[1] in ("d", "i") and x[0][-2:] not in ("_x", "_y", "_z")]
            if uniq and rng.random() < 0.7:
                sb["part"] = rng.choice(uniq)
        if p["sink"] and not p["sink"].get("empty") and rng.random() < 0.5:
            names = [x[0] for x in p["sink"]["columns"] if x[0] not in ("x", "y", "z", "vx", "vy", "vz")]
            if names:
                sb["sink"] = rng.choice(names)
        if sb and not (k == "vars" and sb.get("mesh") not in c.get("mesh", [])):
            c["sortby"] = sb
    # optional extras riding on any call
    if k in ("pred_pos", "pred_val", "pred_level", "pred_none") and rng.random() < 0.3:
        c["off"] = rng.choice(["part", "sink"])
    return c


def generate(rng, tier):
    p = gen_world_params(rng, tier, max_cells=rng.choice([60, 150, 300]), hilbert=None if rng.random() < 0.3 else True,
                         need_part=rng.random() < 0.8, need_sink=rng.random() < 0.5)
    if p["ordering"] == "hilbert" and p["ndim"] == 2:
        p["ndim"] = 3
        if p["part"]:
            p["part"] = None
    if p["levelmax"] > 5:
        p["levelmax"] = 5
        p["levelmin"] = min(p["levelmin"], 5)
    if p["ncpu"] == 1:
        p["ncpu"] = rng.choice([2, 3, 4])
        p["bound_frac"] = sorted(rng.random() for _ in range(p["ncpu"] - 1)) if p["ordering"] == "hilbert" else None
        if p["part"]:
            p["part"]["counts"] = [rng.choice([0, 1, 2, 3, 5]) for _ in range(p["ncpu"])]
    deep = rng.random() < 0.12
    if deep:
        # a deeper uniform base grid on many ranks: the CPU pre-selection depends on box and level cap together
        p.update(ndim=3, ordering="hilbert", levelmin=3, levelmax=rng.choice([3, 3, 4]), maxcells=rng.choice([700, 900]), ncpu=rng.choice([4, 6, 8, 12]),
                 bound_keys=None, nboundary=0)
        p["bound_frac"] = sorted(rng.random() for _ in range(p["ncpu"] - 1))
        if p["part"]:
            p["part"]["counts"] = [rng.choice([0, 1, 2, 3]) for _ in range(p["ncpu"])]
    ncalls = rng.choice([2, 2, 3, 4, 5, 8])
    calls = []
    if deep:
        kind = rng.choice(["tiny", "leaf", "leaf"])
        box = [gen_interval(rng, x, p["levelmax"], kind=kind) for x in "xyz"]
        first = {"kind": "pred_pos", "intervals": box}
        second = {"kind": "pred_pos", "intervals": [dict(i) for i in box], "level": {"kind": "le", "k": rng.randrange(1, p["levelmax"] + 1)}}
        calls = [first, second] if rng.random() < 0.5 else [second, first]
        ncalls = max(0, ncalls - 2)
        if rng.random() < 0.5:
            # a load of the finest level alone (a level floor), then small boxes: what the floor implied for the first call must
            # not shape the choice of files of the later ones
            p["levelmax"] = 4
            calls = [{"kind": "pred_level", "level": rng.choice([{"kind": "eq", "k": 4}, {"kind": "between", "a": 3, "b": 5}])}]
            for _ in range(rng.choice([3, 4, 6])):
                calls.append({"kind": "pred_pos", "intervals": [gen_interval(rng, x, 4, kind=rng.choice(["tiny", "tiny", "leaf"])) for x in "xyz"]})
            ncalls = 0
    for _ in range(ncalls):
        c = gen_call(rng, p)
        # a call that sets per-call reader state is often followed by one that does not touch that reader at all
        if calls and calls[-1]["kind"] in ("pred_pos", "pred_level", "cpu_list", "vars", "sortby") and rng.random() < 0.4:
            c = {"kind": rng.choice(["part_only", "mesh_off", "groups", "full"])}
            if c["kind"] == "groups":
                c["groups"] = rng.choice([["part"], ["sink"], ["part", "sink"], ["mesh"]])
        # a load of some ranks only is often followed directly by a wider one (what was learnt from a subset of the files
        # must not be taken for the whole output)
        if calls and calls[-1]["kind"] == "cpu_list" and rng.random() < 0.5:
            c = {"kind": "full"} if rng.random() < 0.6 else {"kind": "cpu_list", "cpu_list": rng.sample(range(1, p["ncpu"] + 1), rng.randrange(1, p["ncpu"] + 1))}
        # the same position box as an earlier call, now together with another level cap (or without the one it had)
        prev = [q for q in calls if q.get("intervals")]
        if prev and rng.random() < 0.35:
            q = rng.choice(prev)
            c = {"kind": "pred_pos", "intervals": [dict(i) for i in q["intervals"]]}
            if "level" not in q or rng.random() < 0.6:
                c["level"] = gen_level_pred(rng, p["levelmin"], p["levelmax"])
        calls.append(c)
    if not deep and rng.random() < 0.12:
        # the history starts with one rank alone
        calls = [{"kind": "cpu_list", "cpu_list": [rng.randrange(1, p["ncpu"] + 1)]}, {"kind": "full"}] + calls[: max(0, len(calls) - 2)]
        if rng.random() < 0.6:
            p["ghost_p"] = 0.0  # no ghost copies: a file then holds only the levels its own rank has
    if "density" in p["hydro_vars"] and rng.random() < 0.08:
        # two loads in a row that differ in the sort key alone, the second key having ties (cells of one level share dx)
        calls = [{"kind": "sortby", "sortby": {"mesh": "density"}}, {"kind": "sortby", "sortby": {"mesh": "dx"}}] + calls[: max(0, len(calls) - 2)]
    shared_preds = rng.random() < 0.15
    if shared_preds:
        # the caller keeps one predicate object per variable and changes what it accepts between calls
        for i in range(len(calls)):
            if rng.random() < 0.5 and calls[i]["kind"] != "cpu_list":
                calls[i] = {"kind": "pred_level", "level": gen_level_pred(rng, p["levelmin"], p["levelmax"])}
    faulty = rng.random() < 0.4
    if faulty:
        for c in calls[:-1]:
            if rng.random() < 0.45:
                c["fault"] = {"what": rng.choice(["KeyboardInterrupt", "KeyboardInterrupt", "EIO", "predicate"]),
                              "where": rng.choice(["frac", "frac", "after_first_cpu", "last"]), "frac": rng.random()}
    case = {"world": p, "calls": calls, "batch": "faults" if faulty else "fault-free"}
    if shared_preds:
        case["shared_preds"] = True
    return case


def describe(case):
    return case


# --------------------------------------------------------------------------


class Raiser:
    """Wraps a predicate; raises RuntimeError at evaluation number `at` (None: never)."""

    def __init__(self, f, counter, at):
        self.f, self.counter, self.at = f, counter, at

    def __call__(self, x):
        i = self.counter[0]
        self.counter[0] += 1
        if self.at is not None and i == self.at:
            raise RuntimeError("simulated predicate failure")
        return self.f(x)


def build_kwargs(call, world, counter, raise_at, shared=None):
    """shared: predicate objects kept over the history (one per variable); the caller changes what they accept between calls
    (a closure over a loop variable, a callable object whose threshold is assigned)."""
    kw = {}
    mesh = {}

    def pred(var, f):
        if shared is None:
            return Raiser(f, counter, raise_at)
        obj = shared.setdefault(var, Raiser(None, None, None))
        obj.f, obj.counter, obj.at = f, counter, raise_at
        return obj

    for s in call.get("intervals", []):
        mesh[s["var"]] = pred(s["var"], interval_func(s, world))
    for s in call.get("values", []):
        mesh[s["var"]] = pred(s["var"], value_func(s, world))
    if "level" in call:
        mesh["level"] = pred("level", level_func(call["level"]))
    k = call["kind"]
    if k == "groups":
        kw["select"] = list(call["groups"])
    elif k == "vars":
        d = {"mesh": list(call["mesh"])}
        if "part" in call:
            d["part"] = list(call["part"])
        kw["select"] = d
    elif k == "mesh_off":
        kw["select"] = {"mesh": False}
    elif k == "part_only":
        kw["select"] = ["part"]
    elif mesh:
        d = {"mesh": mesh}
        if call.get("off"):
            d[call["off"]] = False
        kw["select"] = d
    if "cpu_list" in call:
        kw["cpu_list"] = list(call["cpu_list"])
    if "sortby" in call:
        kw["sortby"] = dict(call["sortby"])
    return kw


def requested(call, group):
    """Does this call ask for `group` (by its arguments alone)?"""
    k = call["kind"]
    if k == "groups":
        return group in call["groups"]
    if k == "mesh_off":
        return group != "mesh"
    if k == "part_only":
        return group == "part"
    return call.get("off") != group


def group_rows(ds, g):
    if g not in ds or not len(ds[g].keys()):
        return 0
    sh = ds[g].shape
    return int(sh[0]) if len(sh) else 1


def snapshot(ds):
    snap = {}
    for g in ds.keys():
        snap[g] = {}
        for k in ds[g].keys():
            snap[g][k] = ([np.array(c.values, copy=True) for c in components(ds[g][k])], str(ds[g][k].unit), type(ds[g][k]).__name__)
    return snap


def diff_group(a, b):
    """a, b: snapshot entries of one group; returns None or a description."""
    if sorted(a) != sorted(b):
        return {"keys": sorted(a), "want_keys": sorted(b)}
    for k in a:
        va, ua, ta = a[k]
        vb, ub, tb = b[k]
        if ta != tb or ua != ub or len(va) != len(vb):
            return {"key": k, "unit": ua, "want_unit": ub, "type": ta, "want_type": tb}
        for x, y in zip(va, vb):
            if x.shape != y.shape or not np.array_equal(x, y):
                return {"key": k, "rows": list(x.shape), "want_rows": list(y.shape)}
    return None


def execute(case, stats):
    viol = []
    res = {"violations": viol, "nontrivial": False}
    p = case["world"]

    def V(cls, clause, detail, step, call):
        viol.append({"class": cls, "clause": clause, "key": {"class": cls, "clause": clause}, "detail": dict(detail, step=step, call=call)})

    kinds_ok = []
    interrupted_then_ok = False
    pending_interrupt = False
    stateful = False
    with Disk(p) as disk:
        w = disk.world
        try:
            ds = disk.dataset()
        except Exception as e:
            raise HarnessError(f"cannot construct dataset: {e!r}")
        shared_preds = {} if case.get("shared_preds") else None
        if shared_preds is not None:
            stats.inc("probe.history_with_predicate_objects_reused_and_changed_between_calls")
        for step, call in enumerate(case["calls"]):
            if viol:
                break
            stats.inc("steps.load_calls")
            stats.add("call_bigrams", (case["calls"][step - 1]["kind"] if step else "^") + ">" + call["kind"])
            # ---- reference: a fresh dataset, same arguments (also counts opens / predicate evaluations)
            cnt_f = [0]
            seam_f = FsSeam()
            try:
                fresh, _ = disk.load(seam=seam_f, **build_kwargs(call, w, cnt_f, None))
                fresh_err = None
            except Exception as e:
                fresh, fresh_err = None, f"{type(e).__name__}"
            nopen, neval = len(seam_f.trace), cnt_f[0]
            before = snapshot(ds)
            fault = call.get("fault") if case["batch"] == "faults" else None
            seam = FsSeam()
            raise_at = None
            fired_kind = None
            if fault and fresh_err is None:
                if fault["what"] == "predicate":
                    if neval > 0:
                        raise_at = min(neval - 1, int(fault["frac"] * neval))
                        fired_kind = "predicate"
                elif nopen > 0:
                    if fault["where"] == "after_first_cpu":
                        names = [n for n, m in seam_f.trace]
                        firsts = [i for i, n in enumerate(names) if ".out" in n]
                        k = firsts[min(len(firsts) - 1, 2)] if firsts else 0
                    elif fault["where"] == "last":
                        k = nopen - 1
                    else:
                        k = min(nopen - 1, int(fault["frac"] * nopen))
                    seam.arm(k, "EIO" if fault["what"] == "EIO" else "KI")
                    fired_kind = fault["what"]
            cnt = [0]
            try:
                disk.load(ds=ds, seam=seam, **build_kwargs(call, w, cnt, raise_at, shared=shared_preds))
                err = None
            except KeyboardInterrupt:
                err = "KeyboardInterrupt"
            except Exception as e:
                err = f"{type(e).__name__}"
            after = snapshot(ds)
            injected = fired_kind is not None and (seam.fired or (raise_at is not None and cnt[0] > raise_at))
            if injected:
                stats.inc("fault." + fired_kind + "_fired")
                if err is None:
                    V("interrupt", "swallowed", {"fault": fired_kind}, step, call)
                    break
                # the interrupted call produced no group: every group equals its snapshot
                if sorted(after) != sorted(before):
                    V("interrupt", "groups-changed", {"groups": sorted(after), "before": sorted(before)}, step, call)
                    break
                for g in before:
                    d = diff_group(after[g], before[g])
                    if d:
                        V("interrupt", "group-modified", dict(d, group=g), step, call)
                        break
                pending_interrupt = True
                continue
            if fresh_err is not None:
                stats.inc("ambig.call_rejected_by_fresh_dataset")
                if err is None:
                    # reused accepted what a fresh dataset rejects: not a dependence the property forbids us to see? it is: outcome differs
                    V("history-dependence", "reused-succeeds-fresh-fails", {"fresh_error": fresh_err}, step, call)
                continue
            if err is not None:
                V("history-dependence", "reused-fails-fresh-succeeds", {"error": err}, step, call)
                break
            fs = snapshot(fresh)
            for g in fs:
                if g not in after:
                    V("history-dependence", "group-missing", {"group": g}, step, call)
                    break
                d = diff_group(after[g], fs[g])
                if d:
                    V("history-dependence", "group-differs-from-fresh", dict(d, group=g, history=[c["kind"] for c in case["calls"][:step]]), step, call)
                    break
            if viol:
                break
            for g in after:
                if g in fs:
                    continue
                if g not in before:
                    V("history-dependence", "group-from-nowhere", {"group": g}, step, call)
                    break
                d = diff_group(after[g], before[g])
                if d:
                    V("history-dependence", "earlier-group-modified", dict(d, group=g), step, call)
                    break
            if viol:
                break
            if call["kind"] == "pred_none" and "mesh" in fs and not fs["mesh"]:
                stats.inc("probe.call_selecting_no_cell_returns_empty_group")
            if "mesh" in fs and ("level" in fs["mesh"] or (call["kind"] == "pred_none" and not fs["mesh"])) and ds.meta.get("ncells") != fresh.meta.get("ncells"):
                V("history-dependence", "meta-ncells", {"meta": int(ds.meta.get("ncells", -1)), "fresh": int(fresh.meta.get("ncells", -1))}, step, call)
            if "part" in fs and len(fs["part"]) and ds.meta.get("nparticles") != fresh.meta.get("nparticles"):
                V("history-dependence", "meta-nparticles", {"meta": int(ds.meta.get("nparticles", -1)), "fresh": int(fresh.meta.get("nparticles", -1))}, step, call)
            # the counts in the metadata match the groups of the dataset after a call that asked for them
            # (independent of what this tree's fresh dataset registers: the rule for "asked for" comes from the arguments)
            if not viol and requested(call, "mesh"):
                rows = group_rows(ds, "mesh")
                if ds.meta.get("ncells") is not None and int(ds.meta["ncells"]) != rows:
                    V("history-dependence", "meta-ncells-vs-group", {"meta": int(ds.meta["ncells"]), "rows_in_dataset": rows,
                                                                    "history": [c["kind"] for c in case["calls"][:step]]}, step, call)
            if not viol and requested(call, "part") and p["part"] is not None:
                rows = group_rows(ds, "part")
                if ds.meta.get("nparticles") is not None and int(ds.meta["nparticles"]) != rows:
                    V("history-dependence", "meta-nparticles-vs-group", {"meta": int(ds.meta["nparticles"]), "rows_in_dataset": rows,
                                                                        "history": [c["kind"] for c in case["calls"][:step]]}, step, call)
            kinds_ok.append(call["kind"])
            if call["kind"] in ("pred_pos", "pred_level", "cpu_list", "vars"):
                stateful = True
            if pending_interrupt:
                interrupted_then_ok = True
                stats.inc("probe.successful_call_after_interrupt")
                pending_interrupt = False
    res["nontrivial"] = bool((len(set(kinds_ok)) >= 2 and stateful) or interrupted_then_ok)
    stats.inc("swarm.batch=" + case["batch"])
    res["signature"] = core.digest(case)[:20]
    return res


def measure(case):
    p = case["world"]
    nf = sum(1 for c in case["calls"] if "fault" in c)
    npart = sum(p["part"]["counts"]) if p["part"] else 0
    return (len(case["calls"]), nf, p["ncpu"], p["levelmax"], len(core.dumps(case["calls"])), p["maxcells"], len(p["hydro_vars"]),
            int(bool(p["grav"])) + int(bool(p["rt_vars"])) + int(p["sink"] is not None), npart, p["nboundary"], int(p["units"] != [1.0, 1.0, 1.0]), int(p["ghost_p"] * 10))


def reductions(case, viol):
    yield from list_reductions(case, "calls")
    if case.get("shared_preds"):
        yield {k: v for k, v in case.items() if k != "shared_preds"}
    for i, c in enumerate(case["calls"]):
        if "fault" in c:
            d = dict(c)
            del d["fault"]
            yield dict(case, calls=case["calls"][:i] + [d] + case["calls"][i + 1:])
    for q in world_reductions(case["world"]):
        if q["ndim"] != case["world"]["ndim"] or q["levelmax"] != case["world"]["levelmax"] or q["levelmin"] != case["world"]["levelmin"]:
            continue
        ok = True
        for c in case["calls"]:
            if "cpu_list" in c and max(c["cpu_list"]) > q["ncpu"]:
                ok = False
            if any(v["var"] not in q["hydro_vars"] for v in c.get("values", [])):
                ok = False
            if any(v not in ["level", "cpu", "dx"] + ["position_" + x for x in "xyz"] + q["hydro_vars"] for v in c.get("mesh", [])):
                ok = False
            if "part" in c and q["part"] is None:
                ok = False
            if "sortby" in c and ((c["sortby"].get("mesh", "dx") not in ["dx"] + q["hydro_vars"]) or ("part" in c["sortby"] and q["part"] is None)
                                  or ("sink" in c["sortby"] and q["sink"] is None)):
                ok = False
        if ok:
            yield dict(case, world=q)
