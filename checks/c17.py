"""C17 -- in-place updates, copies and views follow a fixed aliasing contract.

Engine H: histories in which 2-3 simulated holders interleave in-place
operators, slicing (views), copy / copy.copy / copy.deepcopy of Arrays,
Vectors, Datagroups and Datasets, and re-insertion of shared objects into
several containers.  Reference model: an explicit object graph (buffers,
views as index sets, Arrays as (buffer, view, unit), Vectors as component
tuples, containers as ordered key -> object maps) with its own unit algebra.
"""
import copy as _copy
import importlib
import operator
import warnings

import numpy as np

from sim import core
from sim.core import HarnessError
from sim.history import list_reductions

PROPERTY = "C17"
ENGINE = "H"
DEFAULT_SEED = 1717
RUNS = {"quick": 4000, "thorough": 250000}
JOBS = {"quick": 8, "thorough": 16}
SEARCH_SPACE = "interleavings of in-place / slice / copy / deepcopy / re-insertion operations by holders sharing buffers and objects, rejected (incompatible) in-place updates as faults"
RULE = ("one run = one history of 4..30 operations over <= 14 live Arrays/Vectors and 3 Datagroups + 1 Dataset; after every step every live object "
        "is compared with the model graph (values through views, unit, identity of container members, np.shares_memory for every pair); "
        "distinct = hash of the operation list; non-trivial = at least one in-place update hit a buffer reachable through >= 2 live handles")
ASSUMPTIONS = [
    "operands are small dyadic numbers; comparisons use rtol 1e-12 (1e-6 for 32-bit floats); after each verified in-place update the model buffer is re-synchronised with the real values",
    "only updates whose result is representable in x's dtype are generated (integer arrays: integer right-hand sides in the same unit; no true division)",
    "aliasing of Vector slices and of Vector-from-Array construction is not fixed by the statement and is not generated",
    "Array op= Vector is not generated (it cannot keep x an Array)",
    "integer Arrays in a dimensionless unit that carries a scale (percent, cm/m) are not generated: the conversion factor is not an integer",
    "a component of a mixed-precision Vector is judged at the accuracy of its own dtype",
    "each component of a Vector is judged at its own precision (1e-12 for double, 1e-6 for single precision); a quarter of the fresh operands are not representable in single precision",
]
REAL_STUB = {"real": ["osyris.Array", "osyris.Vector", "osyris.Datagroup", "osyris.Dataset", "pint registry"], "stub": []}
OPS = {"+": operator.iadd, "-": operator.isub, "*": operator.imul, "/": operator.itruediv}
OOPS = {"+": operator.add, "-": operator.sub, "*": operator.mul, "/": operator.truediv}
DT = {"f8": np.float64, "f4": np.float32, "i8": np.int64, "i4": np.int32}
MAXOBJ = 14


def prepare(tier):
    warnings.filterwarnings("ignore")
    importlib.import_module("osyris")


# --------------------------------------------------------------------------
# independent unit algebra: scale to CGS + dimension exponents

BASE = {"": (1.0, {}), "cm": (1.0, {"L": 1}), "m": (100.0, {"L": 1}), "km": (1.0e5, {"L": 1}),
        "g": (1.0, {"M": 1}), "kg": (1000.0, {"M": 1}), "s": (1.0, {"T": 1}),
        # dimensionless units that carry a scale: a plain number is 1, not 1 percent
        "percent": (0.01, {}), "cm/m": (0.01, {})}


class U:
    def __init__(self, scale, dims):
        self.scale, self.dims = float(scale), {k: v for k, v in dims.items() if v}

    @classmethod
    def of(cls, name):
        s, d = BASE[name]
        return cls(s, d)

    def compatible(self, o):
        return self.dims == o.dims

    def mul(self, o, sign=1):
        d = dict(self.dims)
        for k, v in o.dims.items():
            d[k] = d.get(k, 0) + sign * v
        return U(self.scale * o.scale ** sign, d)

    def key(self):
        return (self.scale, tuple(sorted(self.dims.items())))


def real_unit_sig(unit):
    """(scale to cgs base, dimension exponents) of a pint unit, through pint's own base reduction."""
    import osyris

    q = (1.0 * unit).to_base_units()
    dims = {}
    names = {"[length]": "L", "[mass]": "M", "[time]": "T"}
    for k, v in q.units.dimensionality.items():
        dims[names.get(k, k)] = v
    return float(q.magnitude), {k: v for k, v in dims.items() if v}


# --------------------------------------------------------------------------
# generation


def gen_vals(rng, n, dtype):
    if dtype in ("i8", "i4"):
        return [float(rng.randrange(1, 9)) for _ in range(n)]
    return [float(rng.randrange(1, 17)) * rng.choice([1.0, 0.5, 0.25, 2.0]) for _ in range(n)]


def gen_rhs(rng, n):
    # "s_arr" / "s_qty": a scalar operand that carries a unit (0-d Array, scalar Quantity); its number is often exactly 1
    kind = rng.choice(["arr", "arr", "arr", "live", "live", "num", "nd", "qty", "vec", "s_arr", "s_qty"])
    unitrel = rng.choice(["same", "same", "compatible", "incompatible", "none"])
    # "one": the operand has length 1 and is broadcast over x (fresh Array / ndarray / Quantity operands only)
    rhs = {"kind": kind, "unitrel": unitrel, "vals": gen_vals(rng, n, "f8"), "num": float(rng.choice([2, 4, 0.5, 3, 1, 1, 100, 0.01] if kind in ("s_arr", "s_qty") else [2, 4, 0.5, 3, 1])),
           "pick": rng.randrange(64), "one": rng.random() < 0.15}
    if kind == "live":
        rhs["raw"] = rng.choice([None, None, None, None, "nd", "qty"])
    if rng.random() < 0.2:
        # operands that are not representable in single precision (0.1, 1/3, 2**24 + 1): a double-precision target keeps all their digits
        rhs["vals"] = [rng.choice([0.1, 1.0 / 3.0, 0.7, 16777217.0, round(rng.uniform(0.1, 9.0), 9)]) for _ in range(n)]
        rhs["num"] = rng.choice([0.1, 1.0 / 3.0, 0.7, 16777217.0])
        rhs["fine"] = True
    return rhs


def generate(rng, tier):
    n = rng.choice([2, 3, 4, 6])
    ops = []
    for _ in range(rng.choice([2, 3, 4])):
        ops.append({"op": "new", "h": 0, "kind": rng.choice(["arr", "arr", "vec"]), "nc": rng.choice([1, 2, 3]),
                    "unit": rng.choice(["m", "cm", "g", "s", "", "", "percent", "cm/m"]), "dtype": rng.choice(["f8", "f8", "f8", "f4", "i8", "i4"]),
                    "vals": [gen_vals(rng, n, "i8") for _ in range(3)]})
    nops = rng.choice([4, 6, 10, 16, 30])
    for _ in range(nops):
        h = rng.randrange(3)
        r = rng.random()
        if r < 0.08:
            ops.append({"op": "new", "h": h, "kind": rng.choice(["arr", "vec"]), "nc": rng.choice([1, 2, 3]),
                        "unit": rng.choice(["m", "cm", "km", "g", "kg", "s", "", "percent", "cm/m"]), "dtype": rng.choice(["f8", "f8", "f4", "i8", "i4"]),
                        "vals": [gen_vals(rng, n, "i8") for _ in range(3)]})
        elif r < 0.22:
            a = rng.choice([None, 0, 1, 1])
            b = rng.choice([None, None, n - 1, n])
            ops.append({"op": "slice", "h": h, "i": rng.randrange(64), "a": a, "b": b, "s": rng.choice([None, None, 1, 2, -1])})
        elif r < 0.36:
            ops.append({"op": "copy", "h": h, "i": rng.randrange(64), "how": rng.choice(["copy", "copy.copy", "copy.deepcopy"]),
                        "target": rng.choice(["leaf", "leaf", "grp", "ds"])})
        elif r < 0.50:
            ops.append({"op": "put", "h": h, "g": rng.randrange(3), "key": rng.choice(["a", "b", "c"]), "i": rng.randrange(64)})
        elif r < 0.55:
            ops.append({"op": "take", "h": h, "g": rng.randrange(3), "pick": rng.randrange(8)})
        elif r < 0.58:
            ops.append({"op": "ds_put", "h": h, "name": rng.choice(["mesh", "part"]), "g": rng.randrange(3)})
        elif r < 0.63:
            ops.append({"op": "comp", "h": h, "i": rng.randrange(64), "c": rng.randrange(3)})
        elif r < 0.68:
            ops.append({"op": "vslice", "h": h, "i": rng.randrange(64), "a": rng.choice([None, 0, 1]), "b": rng.choice([None, None, n - 1]), "s": rng.choice([None, None, 1, 2])})
        elif r < 0.74:
            # aliasing chain: y = v.<c>[sl] (a view of one component), w = v[sl], then w op= y: the operand is a sibling
            # view of one of the target's components (negative indices pick the most recent handle of the kind)
            a, b, st = rng.choice([None, 0, 1]), rng.choice([None, None, n - 1]), rng.choice([None, None, 1, 2])
            vi = rng.randrange(64)
            ops.append({"op": "comp", "h": h, "i": vi, "c": rng.randrange(3)})
            ops.append({"op": "slice", "h": h, "i": -1, "a": a, "b": b, "s": st})
            ops.append({"op": "vslice", "h": h, "i": vi, "a": a, "b": b, "s": st})
            ops.append({"op": "inplace", "h": h, "i": -1, "sym": rng.choice("+-*/"),
                        "rhs": {"kind": "live", "unitrel": "same", "vals": gen_vals(rng, n, "f8"), "num": 2.0, "pick": -2,
                                # the operand may be the raw buffer of that view (ndarray), or a Quantity wrapped around it
                                "raw": rng.choice([None, None, "nd", "qty"])}})
        elif r < 0.80:
            # reuse chain: y (other, compatible unit) is an operand, then y's data change through a *view* of y, then y is an
            # operand again -- whatever the library remembered about y the first time must not be reused
            u1, u2 = rng.choice([("m", "km"), ("cm", "m"), ("km", "cm"), ("g", "kg"), ("m", "m")])
            ops.append({"op": "new", "h": h, "kind": "arr", "nc": 1, "unit": u1, "dtype": "f8", "vals": [gen_vals(rng, n, "i8") for _ in range(3)]})
            ops.append({"op": "new", "h": h, "kind": "arr", "nc": 1, "unit": u2, "dtype": "f8", "vals": [gen_vals(rng, n, "i8") for _ in range(3)]})
            sym = rng.choice("+-*/")
            first = {"op": "inplace", "h": h, "i": -2, "sym": sym, "rhs": {"kind": "live", "unitrel": "compatible", "vals": gen_vals(rng, n, "f8"), "num": 2.0, "pick": -1}}
            ops.append(first)
            sa, sb = rng.choice([None, 0, 1]), rng.choice([None, n - 1])
            full = sa in (None, 0) and sb is None
            ops.append({"op": "slice", "h": h, "i": -1, "a": sa, "b": sb, "s": None})
            ops.append({"op": "inplace", "h": h, "i": -1, "sym": rng.choice("*+"), "rhs": {"kind": "num" if rng.random() < 0.5 else "arr", "unitrel": "same",
                                                                                             "vals": gen_vals(rng, n, "f8"), "num": 4.0, "pick": 0}})
            ops.append({"op": "inplace", "h": h, "i": -3, "sym": rng.choice([sym, "+", "*"]), "rhs": {"kind": "live", "unitrel": "compatible", "vals": gen_vals(rng, n, "f8"),
                                                                                                       "num": 2.0, "pick": -2 if full else -1}})
        else:
            ops.append({"op": "inplace", "h": h, "i": rng.randrange(64), "sym": rng.choice("+-*/"), "rhs": gen_rhs(rng, n)})
    for o in ops:
        if o["op"] == "new" and o["kind"] == "vec" and o["nc"] > 1 and rng.random() < 0.25:
            o["cdt"] = rng.choice([["f8", "f4", "f4"], ["f8", "f8", "f4"], ["f8", "f4", "f8"], ["f4", "f8", "f8"]])
        if o["op"] == "new" and o["unit"] in ("percent", "cm/m") and o["dtype"] in ("i8", "i4"):
            o["dtype"] = "f8"  # integers in a unit whose conversion factor is not an integer are outside the quantifier
    case = {"n": n, "ops": ops}
    if rng.random() < 0.2:
        # a scalar (0-d) Array or Vector: copies by every route are independent in both directions
        case["scalar"] = {"val": float(rng.choice([4, 3, 0.5, -2, 7])), "unit": rng.choice(["s", "m", "", "g"]), "kind": rng.choice(["arr", "arr", "vec"]),
                          "route": rng.choice(["copy", "copy.copy", "deepcopy", "dg-deepcopy", "ds-deepcopy"]), "side": rng.choice(["copy", "orig"]),
                          "sym": rng.choice("+-*/"), "num": float(rng.choice([2, 4, 0.5, 3]))}
    if rng.random() < 0.08:
        # an Array built on a read-only window (a locked view, a broadcast) onto data that another Array owns
        case["readonly"] = {"kind": rng.choice(["locked-view", "broadcast"]), "route": rng.choice(["copy", "copy.copy", "deepcopy", "dg-deepcopy", "ds-deepcopy", "vec"]),
                            "vals": [float(rng.randrange(1, 9)) for _ in range(4)]}
    if rng.random() < 0.12:
        # dtypes beyond float and signed integer (unsigned counters, complex amplitudes), operand of the same dtype
        dt = rng.choice(["u1", "u2", "u4", "u8", "c8", "c16"])
        case["narrow"] = {"dtype": dt, "sym": rng.choice("+-*" if dt[0] == "u" else "+-*/"), "unit": rng.choice(["m", "s", "g", "cm"]), "yunit": rng.choice(["s", "m", "g"]),
                          "vals": [rng.randrange(3, 10) for _ in range(3)], "yvals": [rng.randrange(1, 3) for _ in range(3)], "vec": rng.random() < 0.3}
        if {case["narrow"]["unit"], case["narrow"]["yunit"]} == {"cm", "m"}:
            case["narrow"]["yunit"] = "s"  # (no conversion factors here: they are not representable in the integer dtypes)
    if rng.random() < 0.02:
        # sizes at which libraries switch code paths (chunking, copies of non-contiguous buffers)
        case["big"] = {"n": rng.choice([70000, 131073, 200000]), "view": rng.choice(["strided", "strided", "reversed", "plain", "column", "window", "window"]),
                       "via": rng.choice([None, "group", "group-slice"]),
                       "sym": rng.choice("+-*/"), "rel": rng.choice(["same", "compatible", "compatible", "number"]), "seed": rng.getrandbits(30)}
    return case


def describe(case):
    return {"n": case["n"], "n_ops": len(case["ops"]), "ops": case["ops"][:8]}


# --------------------------------------------------------------------------
# model graph


class Graph:
    def __init__(self, osy):
        self.osy = osy
        self.bufs = {}      # bid -> np.ndarray (model values, real dtype)
        self.arr = {}       # oid -> {"buf", "idx", "unit": U, "real"}
        self.vec = {}       # oid -> {"comps": [oid], "real"}
        self.grp = {}       # oid -> {"m": {key: oid}, "real"}
        self.ds = {}        # oid -> {"m": {name: grp oid}, "real"}
        self.next = 0
        self.handles = []   # list of (type, oid): what the holders can name

    def nid(self):
        self.next += 1
        return self.next

    def new_arr(self, real, buf, idx, unit):
        o = self.nid()
        self.arr[o] = {"buf": buf, "idx": np.asarray(idx), "unit": unit, "real": real}
        return o

    def new_buf(self, values):
        b = self.nid()
        self.bufs[b] = np.array(values)
        return b

    def vals(self, o):
        a = self.arr[o]
        return self.bufs[a["buf"]][a["idx"]]

    def leaves(self, h):
        t, o = h
        return [o] if t == "arr" else list(self.vec[o]["comps"])


def big_scenario(bg, osy, V, stats):
    """The same contract at sizes where libraries switch to other code paths: x is a (strided, reversed, column or plain)
    view of a parent with 10^5 elements, updated in place by a full-shape operand; x, the parent and the operand are
    compared with a numpy model."""
    op = {"op": "big", "big": bg}
    stats.inc("probe.large_array_scenario=" + bg["view"])
    try:
        n = bg["n"]
        g = np.random.default_rng(bg["seed"])
        base = g.integers(1, 50, size=(2 * n, 3) if bg["view"] == "column" else 2 * n).astype(np.float64)
        parent = osy.Array(values=base.copy(), unit="m")
        if bg["view"] == "window":
            n = n // 3  # a small window (1/6 of the parent) somewhere inside it
        sl = {"strided": (slice(None, None, 2),), "reversed": (slice(None, None, -2),), "plain": (slice(0, n),), "column": (slice(0, n), 1),
              "window": (slice(1000, 1000 + n),)}[bg["view"]]
        x = parent[sl if len(sl) > 1 else sl[0]]
        via = bg.get("via")
        if via == "group":
            # the view is stored in a Datagroup and updated through it: it is still a view of the parent
            dg_ = osy.Datagroup()
            dg_["w"] = x
            x = dg_["w"]
        elif via == "group-slice" and len(sl) == 1:
            dgp = osy.Datagroup()
            dgp["p"] = parent
            x = dgp[sl[0]]["p"]
        yv = g.integers(1, 9, size=n).astype(np.float64)
        yunit = {"same": "m", "compatible": "cm", "number": None}[bg["rel"]]
        if bg["sym"] in "+-" and yunit is None:
            yunit = "m"
        y = osy.Array(values=yv.copy(), unit=yunit) if yunit is not None else yv.copy()
        f = {"m": 1.0, "cm": 0.01, None: 1.0}[yunit]
        fn = {"+": np.add, "-": np.subtract, "*": np.multiply, "/": np.divide}[bg["sym"]]
        model = base.copy()
        model[sl if len(sl) > 1 else sl[0]] = fn(model[sl if len(sl) > 1 else sl[0]], yv * f)
        r = OPS[bg["sym"]](x, y)
        if r is not x:
            V(0, op, "identity", {"inplace_returned_new_array": True})
            return
        got_x = np.asarray(x.values, dtype=float)
        want_x = model[sl if len(sl) > 1 else sl[0]]
        if got_x.shape != want_x.shape or not np.allclose(got_x, want_x, rtol=1e-12, atol=0):
            i = int(np.argmax(~np.isclose(got_x, want_x, rtol=1e-12, atol=0))) if got_x.shape == want_x.shape else -1
            V(0, op, "inplace-value", {"first_wrong": i, "got": float(got_x.ravel()[i]) if i >= 0 else None, "want": float(want_x.ravel()[i]) if i >= 0 else None, "n": n})
            return
        got_p = np.asarray(parent.values, dtype=float)
        if not np.allclose(got_p, model, rtol=1e-12, atol=0):
            V(0, op, "view-not-updated", {"n_wrong": int(np.sum(~np.isclose(got_p, model, rtol=1e-12, atol=0))), "n": n})
            return
        ymag = np.asarray(y.values if yunit is not None else y, dtype=float)
        if not np.array_equal(ymag, yv) or (yunit is not None and y.unit != osy.units(yunit)):
            V(0, op, "rhs-modified", {"n": n})
    except HarnessError:
        raise
    except Exception as e:
        V(0, op, "exception", {"error": f"{type(e).__name__}: {e}"[:300]})


def scalar_scenario(sc, osy, V, stats):
    """copy()/copy.copy/deepcopy of a 0-d Array or Vector (alone, or as a member of a deep-copied Datagroup/Dataset), then an
    in-place update on one side: the other side keeps value and unit; the updated object keeps its identity."""
    op = {"op": "scalar", "scalar": sc}
    stats.inc("probe.scalar_copy_scenario=" + sc["route"])
    try:
        mk = (lambda: osy.Array(values=sc["val"], unit=sc["unit"])) if sc["kind"] == "arr" else (lambda: osy.Vector(sc["val"], 2 * sc["val"], unit=sc["unit"]))
        x = mk()
        r = sc["route"]
        if r == "copy":
            c = x.copy()
        elif r == "copy.copy":
            c = _copy.copy(x)
        elif r == "deepcopy":
            c = _copy.deepcopy(x)
        else:
            dg = osy.Datagroup()
            dg["a"] = x
            x = dg["a"]
            if r == "dg-deepcopy":
                c = _copy.deepcopy(dg)["a"]
            else:
                ds = osy.Dataset()
                ds["g"] = dg
                c = _copy.deepcopy(ds)["g"]["a"]
        if c is x:
            V(0, op, "copy-is-original", {})
            return
        upd, other = (c, x) if sc["side"] == "copy" else (x, c)
        rhs = sc["num"] if sc["sym"] in "*/" else osy.Array(values=sc["num"], unit=sc["unit"])
        before_other = [float(np.asarray(a.values)) for a in (core.vcomps(other) if sc["kind"] == "vec" else [other])]
        res_ = OPS[sc["sym"]](upd, rhs)
        if sc["kind"] == "arr" and res_ is not upd:
            V(0, op, "identity", {"inplace_returned_new_array": True})
            return
        fn = {"+": np.add, "-": np.subtract, "*": np.multiply, "/": np.divide}[sc["sym"]]
        base = [sc["val"]] if sc["kind"] == "arr" else [sc["val"], 2 * sc["val"]]
        got_upd = [float(np.asarray(a.values)) for a in (core.vcomps(res_) if sc["kind"] == "vec" else [res_])]
        want_upd = [float(fn(b, sc["num"])) for b in base]
        if not np.allclose(got_upd, want_upd, rtol=1e-12, atol=0):
            V(0, op, "inplace-value", {"got": got_upd, "want": want_upd})
            return
        after_other = [float(np.asarray(a.values)) for a in (core.vcomps(other) if sc["kind"] == "vec" else [other])]
        if after_other != before_other or after_other != base or other.unit != osy.units(sc["unit"]):
            V(0, op, "copy-not-independent", {"other_side_now": after_other, "was": before_other, "unit": str(other.unit)})
    except HarnessError:
        raise
    except Exception as e:
        V(0, op, "exception", {"error": f"{type(e).__name__}: {e}"[:300]})


def readonly_scenario(ro, osy, V, stats):
    """A copy (by any route) of an Array whose buffer is a read-only window onto data that another Array can write: the copy
    keeps its values when the owner is updated in place, and can itself be updated in place without touching the owner."""
    op = {"op": "readonly", "readonly": ro}
    stats.inc("probe.copy_of_an_array_on_a_read_only_buffer=" + ro["route"])
    try:
        n = 4
        if ro["kind"] == "locked-view":
            a = osy.Array(values=np.array(ro["vals"][:n], dtype=float), unit="m")
            win = a.values.view()
            win.flags.writeable = False
        else:
            a = osy.Array(values=np.array(ro["vals"][:1], dtype=float), unit="m")
            win = np.broadcast_to(a.values, (n,))
        r = osy.Array(values=win, unit="m")
        if not np.shares_memory(r.values, a.values):
            return  # (the constructor copied: nothing to test)
        route = ro["route"]
        if route == "vec":
            c = _copy.deepcopy(osy.Vector(x=r, y=r)).x
        elif route in ("copy", "copy.copy", "deepcopy"):
            c = {"copy": lambda q: q.copy(), "copy.copy": _copy.copy, "deepcopy": _copy.deepcopy}[route](r)
        else:
            dg = osy.Datagroup()
            dg["a"] = r
            if route == "dg-deepcopy":
                c = _copy.deepcopy(dg)["a"]
            else:
                ds = osy.Dataset()
                ds["g"] = dg
                c = _copy.deepcopy(ds)["g"]["a"]
        before = np.array(c.values, dtype=float).copy()
        a *= 2.0
        if not np.array_equal(np.asarray(c.values, dtype=float), before):
            V(0, op, "copy-not-independent", {"copy_now": np.asarray(c.values).tolist(), "was": before.tolist(), "direction": "owner-updated"})
            return
        owner_now = np.array(a.values, dtype=float).copy()
        try:
            c += osy.Array(values=1.0, unit="m")
        except Exception as e:
            V(0, op, "copy-not-independent", {"copy_cannot_be_updated": f"{type(e).__name__}: {e}"[:120]})
            return
        if not np.array_equal(np.asarray(a.values, dtype=float), owner_now) or not np.array_equal(np.asarray(c.values, dtype=float), before + 1.0):
            V(0, op, "copy-not-independent", {"owner_now": np.asarray(a.values).tolist(), "copy_now": np.asarray(c.values).tolist(), "direction": "copy-updated"})
    except HarnessError:
        raise
    except Exception as e:
        V(0, op, "exception", {"error": f"{type(e).__name__}: {e}"[:300]})


def narrow_scenario(nc, osy, V, stats):
    """x op= y on an Array (or the components of a Vector) of unsigned-integer or complex dtype, with an operand of the same
    dtype: same object, value and unit of x op y (unit from plain unit arithmetic), seen through both groups holding x, y untouched."""
    op = {"op": "narrow", "narrow": nc}
    stats.inc("probe.inplace_on_unsigned_or_complex_dtype=" + nc["dtype"])
    try:
        dt = np.dtype(nc["dtype"])
        xv = [np.array(nc["vals"], dtype=dt), np.array([v + 1 for v in nc["vals"]], dtype=dt)]
        yv = np.array(nc["yvals"], dtype=dt)
        ux, uy = nc["unit"], (nc["unit"] if nc["sym"] in "+-" else nc["yunit"])
        if nc["vec"]:
            x = osy.Vector(xv[0].copy(), xv[1].copy(), unit=ux)
        else:
            x = osy.Array(values=xv[0].copy(), unit=ux)
        y = osy.Array(values=yv.copy(), unit=uy)
        g1, g2 = osy.Datagroup(), osy.Datagroup()
        g1["a"] = x
        g2["b"] = x
        r = OPS[nc["sym"]](x, y)
        if not nc["vec"] and r is not x:
            V(0, op, "identity", {"inplace_returned_new_array": True})
            return
        fn = {"+": np.add, "-": np.subtract, "*": np.multiply, "/": np.divide}[nc["sym"]]
        q = {"+": lambda a, b: a, "-": lambda a, b: a, "*": lambda a, b: a * b, "/": lambda a, b: a / b}[nc["sym"]](1.0 * osy.units(ux), 1.0 * osy.units(uy))
        want_unit = q.units
        for holder, key in ((g1, "a"), (g2, "b")):
            leaves = core.vcomps(holder[key]) if nc["vec"] else [holder[key]]
            for a, base in zip(leaves, xv):
                want = fn(base, yv).astype(dt)
                if not np.array_equal(np.asarray(a.values), want):
                    V(0, op, "inplace-value", {"got": np.asarray(a.values).astype(complex).real.tolist(), "want": want.astype(complex).real.tolist(), "seen_through": key})
                    return
                if a.unit != want_unit:
                    V(0, op, "inplace-unit", {"unit": str(a.unit), "want": str(want_unit), "dtype": nc["dtype"], "seen_through": key})
                    return
        if not np.array_equal(np.asarray(y.values), yv) or y.unit != osy.units(uy):
            V(0, op, "rhs-modified", {"y": np.asarray(y.values).astype(complex).real.tolist()})
    except HarnessError:
        raise
    except Exception as e:
        V(0, op, "exception", {"error": f"{type(e).__name__}: {e}"[:300]})


def execute(case, stats):
    import osyris as osy
    from pint.errors import DimensionalityError

    viol = []
    res = {"violations": viol, "nontrivial": False}
    G = Graph(osy)
    n = case["n"]
    shared_update = False
    groups = []
    for _ in range(3):
        o = G.nid()
        G.grp[o] = {"m": {}, "real": osy.Datagroup()}
        groups.append(o)
    dso = G.nid()
    G.ds[dso] = {"m": {}, "real": osy.Dataset()}
    G.ds[dso]["real"].meta["time"] = 1.5  # (filled in place, the way a loader fills it)

    def V(step, op, clause, detail):
        viol.append({"class": "aliasing-contract", "clause": clause, "key": {"op": op["op"], "clause": clause}, "detail": dict(detail, step=step, op=op)})

    if case.get("scalar"):
        scalar_scenario(case["scalar"], osy, V, stats)
    if case.get("readonly") and not viol:
        readonly_scenario(case["readonly"], osy, V, stats)
    if case.get("narrow") and not viol:
        narrow_scenario(case["narrow"], osy, V, stats)
        if viol:
            res["signature"] = core.digest(case)[:20]
            return res
    if case.get("big"):
        big_scenario(case["big"], osy, V, stats)
        if viol:
            res["signature"] = core.digest(case)[:20]
            return res

    def rtol_of(dtype):
        return 1e-6 if np.dtype(dtype).itemsize == 4 and np.dtype(dtype).kind == "f" else 1e-12

    def mk_leaf(kind, nc, unit, dtype, vals, cdt=None):
        if kind == "arr":
            v = np.array(vals[0][:n] + [1.0] * max(0, n - len(vals[0])), dtype=DT[dtype])
            real = osy.Array(values=v.copy(), unit=unit)
            o = G.new_arr(real, G.new_buf(v), np.arange(n), U.of(unit))
            return ("arr", o)
        comps = [np.array(vals[c][:n] + [1.0] * max(0, n - len(vals[c])), dtype=np.float64) * (c + 1) for c in range(nc)]
        if cdt:
            # components stored with different precisions (built from raw values)
            comps = [c.astype(DT[cdt[i % len(cdt)]]) for i, c in enumerate(comps)]
            stats.inc("probe.vector_with_components_of_different_dtypes")
        real = osy.Vector(*[c.copy() for c in comps], unit=unit)
        oc = []
        for c, name in zip(comps, "xyz"):
            oc.append(G.new_arr(getattr(real, name), G.new_buf(c), np.arange(n), U.of(unit)))
        o = G.nid()
        G.vec[o] = {"comps": oc, "real": real}
        return ("vec", o)

    def copy_leaf(h, real_new):
        t, o = h
        if t == "arr":
            a = G.arr[o]
            return ("arr", G.new_arr(real_new, G.new_buf(G.vals(o).copy()), np.arange(len(a["idx"])), a["unit"]))
        oc = []
        for co, name in zip(G.vec[o]["comps"], "xyz"):
            a = G.arr[co]
            oc.append(G.new_arr(getattr(real_new, name), G.new_buf(G.vals(co).copy()), np.arange(len(a["idx"])), a["unit"]))
        no = G.nid()
        G.vec[no] = {"comps": oc, "real": real_new}
        return ("vec", no)

    def real_of(h):
        t, o = h
        return G.arr[o]["real"] if t == "arr" else G.vec[o]["real"]

    def shape_of(h):
        return (len(G.arr[G.leaves(h)[0]]["idx"]),)

    def reach(bid):
        """live handles (incl. container members) whose data live in buffer bid"""
        cnt = 0
        seen = set()
        for h in G.handles:
            for lo in G.leaves(h):
                if G.arr[lo]["buf"] == bid and lo not in seen:
                    seen.add(lo)
                    cnt += 1
        return cnt

    for step, op in enumerate(case["ops"]):
        if viol:
            break
        k = op["op"]
        stats.inc("steps.operations")
        stats.add("op_bigrams", (case["ops"][step - 1]["op"] if step else "^") + ">" + k)
        try:
            if k == "new":
                if len(G.handles) < MAXOBJ:
                    G.handles.append(mk_leaf(op["kind"], op["nc"], op["unit"], op["dtype"], op["vals"], cdt=op.get("cdt")))
            elif k == "slice":
                arrs = [h for h in G.handles if h[0] == "arr"]
                if not arrs or len(G.handles) >= MAXOBJ:
                    continue
                h = arrs[op["i"] % len(arrs)]
                a = G.arr[h[1]]
                sl = slice(op["a"], op["b"], op["s"])
                real = a["real"][sl]
                idx = a["idx"][sl]
                if len(idx) == 0:
                    continue
                G.handles.append(("arr", G.new_arr(real, a["buf"], idx, a["unit"])))
                stats.inc("probe.slice_view_created")
            elif k == "copy":
                if len(G.handles) >= MAXOBJ:
                    continue
                how = {"copy": lambda x: x.copy(), "copy.copy": _copy.copy, "copy.deepcopy": _copy.deepcopy}[op["how"]]
                if op["target"] == "leaf":
                    if not G.handles:
                        continue
                    h = G.handles[op["i"] % len(G.handles)]
                    new = how(real_of(h))
                    if new is real_of(h):
                        V(step, op, "copy-identity", {"copy_returned_same_object": True})
                        continue
                    G.handles.append(copy_leaf(h, new))
                    stats.inc("probe.leaf_copy_" + op["how"])
                elif op["target"] == "grp":
                    go = groups[op["i"] % 3]
                    g = G.grp[go]
                    if op["how"] == "copy.deepcopy":
                        new = _copy.deepcopy(g["real"])
                        nm, memo = {}, {}
                        for key, (t, o) in g["m"].items():
                            # deepcopy keeps sharing *inside* the copied container (memo)
                            if (t, o) not in memo:
                                memo[(t, o)] = copy_leaf((t, o), new[key])
                                if len(G.handles) < MAXOBJ:
                                    G.handles.append(memo[(t, o)])
                            nm[key] = memo[(t, o)]
                        stats.inc("probe.group_deepcopy")
                    else:
                        new = how(g["real"])
                        nm = dict(g["m"])  # shallow: same member objects
                        stats.inc("probe.group_shallow_copy")
                    no = G.nid()
                    G.grp[no] = {"m": nm, "real": new}
                    groups[(op["i"] + 1) % 3] = no
                else:
                    d = G.ds[dso]
                    if op["how"] == "copy.deepcopy":
                        new = _copy.deepcopy(d["real"])
                        # the copy reaches nothing of the original -- also not through the groups' link to their dataset
                        for name in d["m"]:
                            if getattr(d["real"][name], "parent", None) is d["real"] and getattr(new[name], "parent", None) is d["real"]:
                                V(step, op, "deepcopy-reaches-original", {"group": name, "via": "parent"})
                        # ... nor through the metadata: entries written on one side do not show on the other
                        mark = f"mark{step}"
                        new.meta[mark] = 1
                        d["real"].meta["orig" + mark] = 2
                        if new.meta is d["real"].meta or mark in d["real"].meta or ("orig" + mark) in new.meta or new.meta.get("time") != 1.5:
                            V(step, op, "deepcopy-reaches-original", {"via": "meta", "same_dict": new.meta is d["real"].meta})
                        d["real"].meta.pop("orig" + mark, None)
                        stats.inc("probe.dataset_deepcopy_meta_independence")
                        memo, gmemo = {}, {}
                        for name, go in d["m"].items():
                            if go not in gmemo:
                                g = G.grp[go]
                                nm = {}
                                for key, (t, o) in g["m"].items():
                                    if (t, o) not in memo:
                                        memo[(t, o)] = copy_leaf((t, o), new[name][key])
                                    nm[key] = memo[(t, o)]
                                no = G.nid()
                                G.grp[no] = {"m": nm, "real": new[name]}
                                gmemo[go] = no
                            groups[(op["i"]) % 3] = gmemo[go]
                        stats.inc("probe.dataset_deepcopy")
                    else:
                        new = how(d["real"])
                        for name, go in d["m"].items():
                            if new[name] is not G.grp[go]["real"]:
                                V(step, op, "container-copy-shallow", {"dataset_copy_member_not_shared": name})
                        stats.inc("probe.dataset_shallow_copy")
            elif k == "put":
                if not G.handles:
                    continue
                h = G.handles[op["i"] % len(G.handles)]
                g = G.grp[groups[op["g"]]]
                if g["m"]:
                    first = next(iter(g["m"].values()))
                    if shape_of(first) != shape_of(h):
                        continue
                g["real"][op["key"]] = real_of(h)
                g["m"][op["key"]] = h
                stats.inc("probe.object_inserted_into_group")
                if sum(1 for go in groups for hh in G.grp[go]["m"].values() if hh == h) > 1:
                    stats.inc("probe.object_in_two_groups")
            elif k == "take":
                g = G.grp[groups[op["g"]]]
                if not g["m"] or len(G.handles) >= MAXOBJ:
                    continue
                key = list(g["m"])[op["pick"] % len(g["m"])]
                h = g["m"][key]
                if g["real"][key] is not real_of(h):
                    V(step, op, "identity", {"group_returns_other_object": key})
                if h not in G.handles:
                    G.handles.append(h)
            elif k == "vslice":
                # slice of a Vector.  Whether it is a view is not fixed by the statement: the model follows what the
                # implementation does (observed with np.shares_memory at creation) so that operands which alias the
                # components of such a Vector can be generated
                vecs = [hh for hh in G.handles if hh[0] == "vec"]
                if not vecs or len(G.handles) >= MAXOBJ:
                    continue
                hv = vecs[op["i"] % len(vecs)]
                sl = slice(op["a"], op["b"], op["s"])
                pv = G.vec[hv[1]]
                if len(G.arr[pv["comps"][0]]["idx"][sl]) == 0:
                    continue
                real = pv["real"][sl]
                oc = []
                for co, name in zip(pv["comps"], "xyz"):
                    a = G.arr[co]
                    rc = getattr(real, name)
                    if np.shares_memory(rc._array, getattr(pv["real"], name)._array):
                        oc.append(G.new_arr(rc, a["buf"], a["idx"][sl], a["unit"]))
                        stats.inc("probe.vector_slice_is_view")
                    else:
                        oc.append(G.new_arr(rc, G.new_buf(G.vals(co)[sl].copy()), np.arange(len(a["idx"][sl])), a["unit"]))
                no = G.nid()
                G.vec[no] = {"comps": oc, "real": real}
                G.handles.append(("vec", no))
            elif k == "comp":
                vecs = [hh for hh in G.handles if hh[0] == "vec"]
                if not vecs or len(G.handles) >= MAXOBJ:
                    continue
                hv = vecs[op["i"] % len(vecs)]
                comps = G.vec[hv[1]]["comps"]
                co = comps[op["c"] % len(comps)]
                got = getattr(G.vec[hv[1]]["real"], "xyz"[op["c"] % len(comps)])
                # v.x is a reference to the component Array itself
                if ("arr", co) not in G.handles:
                    G.arr[co]["real"] = got
                    G.handles.append(("arr", co))
                    stats.inc("probe.component_array_handle")
            elif k == "ds_put":
                go = groups[op["g"]]
                G.ds[dso]["real"][op["name"]] = G.grp[go]["real"]
                G.ds[dso]["m"][op["name"]] = go
            elif k == "inplace":
                if not G.handles:
                    continue
                hi = op["i"] % len(G.handles)
                h = G.handles[hi]
                x = real_of(h)
                xl = G.leaves(h)
                xu = G.arr[xl[0]]["unit"]
                xdt = G.bufs[G.arr[xl[0]]["buf"]].dtype
                rhs = op["rhs"]
                sym = op["sym"]
                nx = shape_of(h)[0]
                # ---- build y
                yleaves = None  # model leaves when y is a live object
                rk = rhs["kind"]
                if rk == "live":
                    cands = [hh for hh in G.handles if shape_of(hh) == (nx,) and (hh[0] == "arr" or h[0] == "vec")]
                    if not cands:
                        continue
                    hy = cands[rhs["pick"] % len(cands)]
                    if hy[0] == "vec" and (h[0] != "vec" or len(G.leaves(hy)) != len(xl)):
                        continue
                    y = real_of(hy)
                    yleaves = G.leaves(hy)
                    yu = G.arr[yleaves[0]]["unit"]
                    yvals = [G.vals(o).astype(np.float64) for o in yleaves]
                    if hy[0] == "arr":
                        yvals = yvals * len(xl)  # an Array is broadcast to every component
                        if rhs.get("raw") == "nd":
                            # the caller passes the Array's buffer itself: a plain ndarray (dimensionless numbers)
                            y, yu = y.values, U.of("")
                            stats.inc("probe.operand_is_the_raw_buffer_of_a_live_array")
                        elif rhs.get("raw") == "qty":
                            y = y.unit._REGISTRY.Quantity(y.values, y.unit)
                            if not np.shares_memory(y.magnitude, real_of(hy).values):
                                raise HarnessError("Quantity construction copied the buffer")
                            stats.inc("probe.operand_is_a_quantity_around_the_buffer_of_a_live_array")
                elif rk in ("arr", "qty", "vec", "s_arr", "s_qty"):
                    names = [nm for nm, (s, d) in BASE.items()]
                    if rhs["unitrel"] == "same":
                        cand = [nm for nm in names if U.of(nm).key() == xu.key()]
                    elif rhs["unitrel"] == "compatible":
                        cand = [nm for nm in names if U.of(nm).compatible(xu) and U.of(nm).key() != xu.key()]
                    elif rhs["unitrel"] == "incompatible":
                        cand = [nm for nm in names if not U.of(nm).compatible(xu)]
                    else:
                        cand = [""]
                    if not cand:
                        cand = ["s" if not U.of("s").compatible(xu) else "g"]
                    un = cand[rhs["pick"] % len(cand)]
                    yu = U.of(un)
                    if rk == "vec":
                        if h[0] != "vec":
                            continue
                        comps = [np.array(rhs["vals"][:nx], dtype=float) * (c + 1) for c in range(len(xl))]
                        y = osy.Vector(*[c.copy() for c in comps], unit=un)
                        yvals = comps
                    elif rk in ("s_arr", "s_qty"):
                        y = osy.Array(values=float(rhs["num"]), unit=un) if rk == "s_arr" else float(rhs["num"]) * osy.units(un)
                        yvals = [np.full(nx, float(rhs["num"]))] * len(xl)
                        stats.inc("probe.scalar_operand_with_unit")
                    else:
                        v = np.array((rhs["vals"] * 4)[:nx], dtype=float)
                        if rhs.get("one") and nx > 1:
                            v = v[:1]
                            stats.inc("probe.operand_of_length_one_broadcast")
                        y = osy.Array(values=v.copy(), unit=un) if rk == "arr" else v.copy() * osy.units(un)
                        yvals = [v] * len(xl)
                elif rk == "num":
                    y = rhs["num"] if xdt.kind == "f" else int(rhs["num"]) or 1
                    yu = U.of("")
                    yvals = [np.full(nx, float(y))] * len(xl)
                else:
                    v = np.array((rhs["vals"] * 4)[:nx], dtype=float)
                    if rhs.get("one") and nx > 1:
                        v = v[:1]
                        stats.inc("probe.operand_of_length_one_broadcast")
                    y = v.copy()
                    yu = U.of("")
                    yvals = [v] * len(xl)
                # ---- representability in x's dtype (outside the quantifier otherwise)
                if xdt.kind == "i":
                    if sym == "/":
                        continue
                    if rk in ("nd", "qty", "s_arr", "s_qty") or (rk in ("arr", "vec", "live") and yu.key() != xu.key() and sym in "+-"):
                        continue
                    if rk in ("arr", "vec") or (rk == "live" and any(G.bufs[G.arr[o]["buf"]].dtype.kind != "i" for o in yleaves)):
                        continue
                    if rk == "live" and yu.compatible(xu) and yu.key() != xu.key():
                        continue
                    if rk == "num" and sym in "+-" and yu.compatible(xu) and yu.key() != xu.key():
                        continue  # a number converted to a scaled dimensionless unit is a float: not representable exactly by construction
                # ---- model expectation
                compatible = yu.compatible(xu)
                if sym in "+-" and not compatible:
                    expect_raise = True
                else:
                    expect_raise = False
                    f = (yu.scale / xu.scale) if compatible else 1.0
                    conv = [yv * f for yv in yvals]
                    xold = [G.vals(o).astype(np.float64) for o in xl]
                    fn = {"+": np.add, "-": np.subtract, "*": np.multiply, "/": np.divide}[sym]
                    with np.errstate(all="ignore"):
                        xnew = [fn(a, b) for a, b in zip(xold, conv)]
                    if sym in "+-":
                        nu = xu
                    else:
                        nu = xu.mul(xu if compatible else yu, 1 if sym == "*" else -1)
                    if any(not np.all(np.isfinite(v)) for v in xnew):
                        continue
                    if h[0] == "arr" and nu.key() != xu.key() and any(h[1] in vv["comps"] for vv in G.vec.values()):
                        # changing the unit of one component Array alone makes its Vector inconsistent by the
                        # user's own doing: not a behaviour the statement covers
                        continue
                    if xdt.kind == "i" and any(np.any(v != np.round(v)) for v in xnew):
                        continue
                    # representable in x's dtype (the statement's precondition): no integer overflow, no float32 overflow
                    def lim_of(dt_):
                        return float(np.iinfo(dt_).max) if dt_.kind == "i" else float(np.finfo(dt_).max) * 1e-3

                    if any(np.any(np.abs(v) > lim_of(G.bufs[G.arr[o]["buf"]].dtype)) for o, v in zip(xl, xnew)):
                        continue
                # snapshots for the differential clause and for "y untouched"
                try:
                    xc, yc = _copy.deepcopy(x), _copy.deepcopy(y)
                    oop = OOPS[sym](xc, yc)
                    oop_err = None
                except Exception as e:
                    oop, oop_err = None, type(e).__name__
                bufs_hit = {G.arr[o]["buf"] for o in xl}
                n_reach = max(reach(b) for b in bufs_hit)
                before_ids = {o: G.arr[o]["real"] for o in xl}
                try:
                    r = OPS[sym](x, y)
                    err = None
                except DimensionalityError:
                    r, err = None, "DimensionalityError"
                except Exception as e:
                    r, err = None, f"{type(e).__name__}: {e}"[:200]
                if expect_raise:
                    stats.inc("fault.incompatible_inplace_update")
                    if err is None:
                        V(step, op, "incompatible-accepted", {"x_unit": str(x.unit) if r is None else None})
                    elif oop_err is None:
                        V(step, op, "inplace-vs-outofplace", {"inplace_raised": err, "out_of_place": "ok"})
                    # operands unchanged: covered by the graph invariant below (model untouched)
                else:
                    if err is not None:
                        V(step, op, "inplace-raised", {"error": err, "out_of_place_error": oop_err})
                    else:
                        if h[0] == "arr" and r is not x:
                            V(step, op, "identity", {"inplace_returned_new_array": True})
                        # write through the model views, then unit of every leaf that was updated in place
                        y32 = yleaves is not None and any(G.bufs[G.arr[o]["buf"]].dtype == np.float32 for o in yleaves)
                        x32 = any(G.bufs[G.arr[o]["buf"]].dtype == np.float32 for o in xl)
                        tol_op = 1e-6 if (y32 or x32 or rtol_of(xdt) > 1e-12) else 1e-12
                        # absolute part: rounding of the operands (cancellation in sums of 32-bit numbers)
                        mag = max([float(np.max(np.abs(q))) for q in xold + conv] + [0.0])
                        atol_op = tol_op * mag
                        # each component is judged at its own precision: a double-precision component next to a single-precision one
                        # keeps double accuracy (unless the operand itself is stored in single precision)
                        leaf_tol = [1e-6 if (y32 or G.bufs[G.arr[o]["buf"]].dtype == np.float32) else 1e-12 for o in xl]
                        if rhs.get("fine") and x32 and any(t < 1e-6 for t in leaf_tol):
                            stats.inc("probe.fine_operand_on_vector_of_mixed_precision")
                        for o, v, lt in zip(xl, xnew, leaf_tol):
                            a = G.arr[o]
                            realv = np.asarray(a["real"].values)
                            if realv.shape != v.shape or not np.allclose(realv.astype(float), v, rtol=lt, atol=lt * mag):
                                V(step, op, "inplace-value", {"got": realv.tolist(), "want": v.tolist()})
                                break
                            # the verified real values become the model's (drift control)
                            G.bufs[a["buf"]][a["idx"]] = realv
                            a["unit"] = nu
                        # leaves of other handles that are the *same objects* got the unit too (same oid: nothing to do)
                        if h[0] == "vec":
                            # v op= y rebinds the holder's name to the returned Vector; its components share the buffers
                            if not isinstance(r, osy.Vector):
                                V(step, op, "identity", {"vector_inplace_returned": type(r).__name__})
                            else:
                                # the holder's name now refers to what the operator returned.  The statement makes
                                # every other reference to the same Vector (a group still holding the object the
                                # operator was applied to, a component Array taken earlier) observe this and every
                                # later update, value *and* unit: the returned object's components are therefore the
                                # *same model objects*; every live real object attached to them must always agree.
                                if r is not x:
                                    no = G.nid()
                                    G.vec[no] = {"comps": list(xl), "real": r}
                                    G.handles[hi] = ("vec", no)
                                    stats.inc("probe.vector_inplace_returned_new_object")
                        # differential clause: same value and unit as the out-of-place result on deep copies
                        if oop_err is not None:
                            V(step, op, "inplace-vs-outofplace", {"out_of_place_raised": oop_err})
                        elif not viol:
                            tol = tol_op
                            rl = [r] if h[0] == "arr" else core.vcomps(r)
                            ol = [oop] if h[0] == "arr" else core.vcomps(oop)
                            for a_, b_, lt in zip(rl, ol, leaf_tol):
                                if not np.allclose(np.asarray(a_.values, dtype=float), np.asarray(b_.values, dtype=float), rtol=lt, atol=lt * mag):
                                    V(step, op, "inplace-vs-outofplace", {"values_inplace": np.asarray(a_.values).tolist(), "values_out_of_place": np.asarray(b_.values).tolist()})
                                    break
                                if a_.unit != b_.unit:
                                    V(step, op, "inplace-vs-outofplace", {"unit_inplace": str(a_.unit), "unit_out_of_place": str(b_.unit), "dtype": str(xdt)})
                                    break
                        if n_reach >= 2:
                            shared_update = True
                            stats.inc("probe.inplace_on_buffer_with_several_handles")
                        stats.inc(f"probe.inplace_{sym}_{rk}")
                        # y untouched (when it is a fresh object)
                        if rk in ("arr", "vec") and not viol:
                            yl = [y] if rk == "arr" else core.vcomps(y)
                            for yy, want in zip(yl, yvals):
                                if not np.array_equal(np.asarray(yy.values, dtype=float), want) or real_unit_sig(yy.unit)[1] != yu.dims:
                                    V(step, op, "rhs-modified", {"y": np.asarray(yy.values).tolist()})
                                    break
                        elif rk in ("qty", "nd") and not viol:
                            # a plain ndarray or an array-valued Quantity is the caller's object just the same
                            ymag = np.asarray(y.magnitude if rk == "qty" else y, dtype=float)
                            if ymag.shape != yvals[0].shape or not np.array_equal(ymag, yvals[0]) or (rk == "qty" and y.units != osy.units(un)):
                                V(step, op, "rhs-modified", {"y": ymag.tolist(), "want": yvals[0].tolist(), "kind": rk})
            else:
                raise HarnessError(f"unknown op {k}")
        except HarnessError:
            raise
        except Exception as e:
            import traceback

            V(step, op, "exception", {"error": f"{type(e).__name__}: {e}"[:300], "tb": traceback.format_exc()[-400:]})
        if viol:
            break
        # ---- graph invariant after every step
        live = []
        seen = set()
        for hh in list(G.handles) + [m for go in groups for m in G.grp[go]["m"].values()]:
            for o in G.leaves(hh):
                if o not in seen:
                    seen.add(o)
                    live.append(o)
        pairs = []
        for hh in list(G.handles) + [m for go in groups for m in G.grp[go]["m"].values()]:
            if hh[0] == "arr":
                pairs.append((hh[1], G.arr[hh[1]]["real"]))
            else:
                for o_, name in zip(G.vec[hh[1]]["comps"], "xyz"):
                    pairs.append((o_, getattr(G.vec[hh[1]]["real"], name)))
        seen_pairs = set()
        for o, real_obj in pairs:
            if (o, id(real_obj)) in seen_pairs:
                continue
            seen_pairs.add((o, id(real_obj)))
            a = dict(G.arr[o], real=real_obj)
            realv = np.asarray(a["real"].values)
            want = G.vals(o)
            tol = rtol_of(want.dtype)
            if realv.shape != want.shape or not np.allclose(realv.astype(float), want.astype(float), rtol=tol, atol=0):
                V(step, op, "values", {"oid": o, "got": realv.tolist(), "want": want.tolist()})
                break
            if realv.dtype != want.dtype:
                V(step, op, "dtype", {"got": str(realv.dtype), "want": str(want.dtype)})
                break
            sc, dims = real_unit_sig(a["real"].unit)
            if dims != a["unit"].dims or abs(sc - a["unit"].scale) > 1e-9 * a["unit"].scale:
                V(step, op, "unit", {"oid": o, "got": str(a["real"].unit), "want_scale": a["unit"].scale, "want_dims": a["unit"].dims, "dtype": str(want.dtype)})
                break
            # re-synchronise (drift control): exact real values become the model's
            if real_obj is G.arr[o]["real"]:
                G.bufs[a["buf"]][a["idx"]] = realv
        if viol:
            break
        for i, o1 in enumerate(live):
            for o2 in live[i + 1:]:
                a1, a2 = G.arr[o1], G.arr[o2]
                want = a1["buf"] == a2["buf"] and bool(set(a1["idx"].tolist()) & set(a2["idx"].tolist()))
                got = bool(np.shares_memory(np.asarray(a1["real"].values), np.asarray(a2["real"].values)))
                if want != got:
                    V(step, op, "shares-memory", {"o1": o1, "o2": o2, "model_alias": want, "real_alias": got})
                    break
            if viol:
                break
        if viol:
            break
        for go in groups:
            g = G.grp[go]
            if list(g["real"].keys()) != list(g["m"]):
                V(step, op, "container-keys", {"keys": list(g["real"].keys()), "model": list(g["m"])})
                break
            for key, hh in g["m"].items():
                if g["real"][key] is not real_of(hh):
                    V(step, op, "container-member-identity", {"key": key})
                    break
        for name, go in G.ds[dso]["m"].items():
            if G.ds[dso]["real"][name] is not G.grp[go]["real"]:
                V(step, op, "container-member-identity", {"dataset": name})
    res["signature"] = core.digest(case)[:20]
    res["nontrivial"] = shared_update
    return res


def measure(case):
    return (len(case["ops"]), int(bool(case.get("scalar"))) + int(bool(case.get("big"))) + int(bool(case.get("narrow"))) + int(bool(case.get("readonly"))), case["n"], len(core.dumps(case["ops"])))


def reductions(case, viol):
    if case.get("scalar"):
        c = dict(case)
        del c["scalar"]
        yield c
        yield dict(case, ops=[])
    if case.get("big"):
        c = dict(case)
        del c["big"]
        yield c
        yield dict(case, ops=[])
    if case.get("readonly"):
        c = dict(case)
        del c["readonly"]
        yield c
        yield dict(case, ops=[])
    if case.get("narrow"):
        c = dict(case)
        del c["narrow"]
        yield c
        yield dict(case, ops=[])
        if case["narrow"]["vec"]:
            yield dict(case, narrow=dict(case["narrow"], vec=False))
    yield from list_reductions(case, "ops")
    if case["n"] > 2:
        yield dict(case, n=2)
    for i, op in enumerate(case["ops"]):
        if op["op"] == "new" and (op["kind"] != "arr" or op["dtype"] != "f8"):
            for ch in ({"kind": "arr"}, {"dtype": "f8"}):
                c = dict(case)
                c["ops"] = list(case["ops"])
                c["ops"][i] = dict(op, **ch)
                yield c
