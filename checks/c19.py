"""C19 -- plot calls do not modify their inputs; per-layer options override call options.

Engine H (histories) over Engine K (kernels simulated, a different schedule per
call): 2..6 calls to map / histogram2d / histogram1d / scatter / plot that
*share* argument objects (Layers and their option dicts, a resolution dict,
origin, limits, the Datagroup and its Arrays).  Oracles: deep structural
snapshot of every argument before = after each call (also when it raises);
the same call repeated returns the same data; every layer of a call equals the
corresponding layer of a *reference call* made with fresh option-less layers
and the effective options (layer's if set, else the call's) at call level.
"""
import contextlib
import importlib
import io
import warnings

import numpy as np

from sim import core
from sim.core import HarnessError
from sim.history import list_reductions
from sim.kseam import Seam, kernel
from sim.mapmodel import build_mesh, mesh_datagroup
from sim.parsim import KernelError, Sim

PROPERTY = "C19"
ENGINE = "H+K"
DEFAULT_SEED = 1919
RUNS = {"quick": 500, "thorough": 30000}
JOBS = {"quick": 8, "thorough": 16}
RUN_WALL_GUARD = 900
SEARCH_SPACE = "histories of plotting calls sharing argument objects x option lattice (each option at neither/call/layer/both level) x kernel schedules per call x failing calls"
RULE = ("one run = one history of 2..6 plotting calls over shared argument objects (one mesh Datagroup, 3 Layers with fixed layer-level options, one resolution "
        "dict, origin, direction Vector/VectorBasis, limits; map directions in every documented form); distinct = hash of the history; non-trivial = at least one object is shared by two calls and at least one option is set at "
        "both levels with different values")
ASSUMPTIONS = [
    "map and histogram2d run with plot=False except for a small fraction of steps (Agg backend); histogram1d, scatter and plot always render",
    "the effective value of an option is observed through a reference call with fresh option-less layers and the effective options at call level (plus Plot.layers[k]['mode'|'params'] directly)",
    "matplotlib Normalize objects are compared by class, vmin and vmax",
    "map kernels run under Engine K with a schedule drawn per call; histogram2d's kernel is simulated too",
    "a call into an empty window is a provoked failure, not a required one (with 'top'/'side' it returns an empty map)",
    "a caller-supplied norm object is used only in calls that do not draw (matplotlib itself fills the limits of a norm object when it draws)",
    "calls with a bare Array ahead of the Layer objects are judged for unmodified inputs and repeatability, not for per-layer precedence",
]
REAL_STUB = {
    "real": ["osyris.map / histogram2d / histogram1d / scatter / plot front-ends", "parse_layer, Layer.copy, get_norm, render (Agg) when plotting", "kernel sources (by CPython)"],
    "stub": ["numba parallel runtime (baton scheduler)"],
}
MESH = {"wseed": 7, "ndim": 3, "levelmin": 1, "levelmax": 2, "refine_p": 0.3, "maxcells": 40, "holes": 0.0, "hole_box": False, "unit": "cm", "scale": 1.0}
OPTS = ["mode", "norm", "vmin", "vmax", "operation", "cmap"]
LAYER_VALUES = {"mode": "contourf", "norm": "log", "vmin": 2.0e-3, "vmax": 5.0e8, "operation": "mean", "cmap": "magma"}
CALL_VALUES = {"mode": "image", "norm": "linear", "vmin": 1.0e-3, "vmax": 9.0e8, "operation": "sum", "cmap": "viridis"}


def prepare(tier):
    warnings.filterwarnings("ignore")
    importlib.import_module("osyris")
    import matplotlib

    matplotlib.use("Agg")
    kernel("osyris.plot.map", "evaluate_on_grid")
    kernel("osyris.plot.histogram2d", "hist2d")


# --------------------------------------------------------------------------


def gen_call(rng):
    fn = rng.choice(["map", "map", "map", "histogram2d", "histogram2d", "histogram1d", "scatter", "plot"])
    c = {"fn": fn, "opts": {o: rng.random() < 0.4 for o in OPTS}, "sched_seed": rng.getrandbits(40), "T": rng.choice([1, 2, 3, 4])}
    if fn == "map":
        c["layers"] = rng.sample([0, 1, 2], rng.choice([1, 1, 2, 3]))
        # an overlay layer (mode="scatter") at some position among the rendered layers
        c["scatter_at"] = rng.choice([None, None, 0, 1, 2])
        c["resolution"] = rng.choice(["shared-dict", "shared-dict", "int", "own-dict"])
        c["thick"] = rng.random() < 0.4
        c["use_origin"] = rng.random() < 0.7
        c["plot"] = rng.random() < 0.06
        c["fail"] = rng.choice([None, None, None, None, "norm", "nocell"])
        # every documented way of giving the direction; "top"/"side" derive it from position, mass and velocity of the data
        c["direction"] = rng.choice([None, None, None, "x", "zyx", "top", "side", "vec", "basis"])
    elif fn == "histogram2d":
        c["layers"] = rng.sample([0, 1, 2], rng.choice([0, 1, 1, 2]))
        c["bare_first"] = bool(c["layers"]) and rng.random() < 0.15  # a bare Array ahead of the Layer objects in the same call
        c["limits"] = rng.random() < 0.5
        c["plot"] = rng.random() < 0.04
        c["fail"] = rng.choice([None, None, None, "norm"])
    elif fn == "histogram1d":
        # several layers in one call: the returned Plot describes the last one
        c["layers"] = rng.sample([0, 1, 2], rng.choice([1, 1, 2, 3]))
        c["bare_first"] = rng.random() < 0.15
        c["bins_call"] = rng.choice([None, 5, "shared-list"])
        c["weights_call"] = rng.random() < 0.4
        # logarithmic axes, and data with zero / negative entries (with explicit bin edges)
        c["logx"] = rng.random() < 0.3
        c["signed"] = rng.random() < 0.25
    elif fn == "scatter":
        c["color"] = rng.choice([None, "str", "array"])
        c["size"] = rng.choice([None, "float", "array"])
    else:
        c["ny"] = rng.choice([0, 1, 2])
        c["as_dict"] = rng.random() < 0.3
    return c


def generate(rng, tier):
    layer_opts = []
    for k in range(3):
        layer_opts.append({o: rng.random() < 0.4 for o in OPTS})
    # layer-level bins/weights of the three histogram1d layers ("on": which of them carry the layer-level setting)
    l1 = {"bins": rng.choice([None, 4, "list"]), "weights": rng.random() < 0.4, "on": [rng.random() < 0.6 for _ in range(3)]}
    calls = [gen_call(rng) for _ in range(rng.choice([2, 3, 4, 6]))]
    if rng.random() < 0.5:
        calls.append(dict(calls[rng.randrange(len(calls))]))  # an exact repetition
    if rng.random() < 0.12:
        # A B C B: a call (B) right after a near-twin (A: same function and options, another origin / limits), then after an
        # unrelated call (C) once more -- state kept between calls by the library shows as B != B
        a = gen_call(rng)
        while a["fn"] not in ("map", "histogram2d"):
            a = gen_call(rng)
        a["fail"], a["plot"] = None, False
        b = dict(a)
        if a["fn"] == "map":
            a["use_origin"], b["use_origin"] = True, False
            if a.get("direction") in (None, "x", "zyx"):
                a["direction"] = b["direction"] = rng.choice(["top", "side", "top", "vec"])
        else:
            a["limits"], b["limits"] = True, False
        c = gen_call(rng)
        if c["fn"] == a["fn"]:
            c = dict(c, direction="x") if c["fn"] == "map" else c
        calls = [a, b, c, dict(b)] + calls[:1]
    case = {"layer_opts": layer_opts, "hist1d_layer": l1, "calls": calls, "res_dict": rng.choice([{"x": 6}, {"x": 4, "y": 5}, {"y": 3}]),
            "seed": 0}
    # option values that are set but falsy (0, 0.0): "set" must mean "is not None"
    if rng.random() < 0.4:
        case["layer_values"] = {"vmin": rng.choice([0, 0.0])}
    if rng.random() < 0.2:
        case["call_values"] = {"vmin": rng.choice([0, 0.0])}
    if rng.random() < 0.15:
        case["call_norm_object"] = True
    if rng.random() < 0.2:
        # the other accepted spelling of the image mode at call level
        case.setdefault("call_values", {})["mode"] = "imshow"
    if rng.random() < 0.2:
        case["alias"] = rng.sample([0, 1, 2], 2)
    if rng.random() < 0.3:
        case["scatter_size"] = rng.choice(["array_mm", "array_mm", "array_cm", "qty"])
        # the overlay is only applied when the map is drawn: such histories draw (and thicken) more of their maps with an overlay
        for c in calls:
            if c["fn"] == "map" and not c.get("fail") and rng.random() < 0.6:
                c["plot"], c["thick"] = True, rng.random() < 0.7
                if c.get("scatter_at") is None:
                    c["scatter_at"] = rng.choice([0, 1, 2])
    if rng.random() < 0.02:
        case["big"] = {"n": rng.choice([120000, 300000]), "res": rng.choice([4, 16]), "op": rng.choice(["sum", "mean"]), "seed": rng.getrandbits(30)}
    return case


def describe(case):
    return case


# --------------------------------------------------------------------------
# snapshots


def snap(obj, depth=0):
    import osyris
    from pint import Quantity

    if depth > 6:
        return ("deep",)
    if isinstance(obj, osyris.Array):
        return ("Array", id(obj), np.array(obj.values, copy=True), str(obj.unit), obj.name)
    if isinstance(obj, osyris.Vector):
        return ("Vector", id(obj), [snap(c, depth + 1) for c in core.vcomps(obj)], obj.name)
    if isinstance(obj, osyris.Datagroup):
        return ("Datagroup", id(obj), [(k, snap(v, depth + 1)) for k, v in obj.items()])
    if isinstance(obj, osyris.core.Layer):
        # every instance attribute, whatever it is called (the data Arrays themselves are snapshotted through the Datagroup)
        return ("Layer", id(obj), [(k, snap(v, depth + 1)) for k, v in sorted(vars(obj).items())])
    if isinstance(obj, dict):
        return ("dict", id(obj), [(k, snap(v, depth + 1)) for k, v in obj.items()])
    if isinstance(obj, (list, tuple)):
        return (type(obj).__name__, id(obj), [snap(v, depth + 1) for v in obj])
    import matplotlib.colors as _mc

    if isinstance(obj, _mc.Normalize):
        return ("Norm", id(obj), type(obj).__name__, repr(obj.vmin), repr(obj.vmax))
    if isinstance(obj, Quantity):
        return ("Quantity", float(obj.magnitude) if np.ndim(obj.magnitude) == 0 else np.array(obj.magnitude, copy=True), str(obj.units))
    if isinstance(obj, np.ndarray):
        return ("ndarray", id(obj), obj.copy())
    return ("value", repr(obj))


def snap_equal(a, b):
    if type(a) != type(b):
        return False
    if isinstance(a, (tuple, list)):
        return len(a) == len(b) and all(snap_equal(x, y) for x, y in zip(a, b))
    if isinstance(a, np.ndarray):
        return a.shape == b.shape and a.dtype == b.dtype and bool(np.array_equal(a, b, equal_nan=True) if a.dtype.kind == "f" else np.array_equal(a, b))
    return a == b


def first_diff(a, b, path="$"):
    if type(a) != type(b):
        return path
    if isinstance(a, (tuple, list)):
        if len(a) != len(b):
            return path + ".len"
        tag = a[0] if a and isinstance(a[0], str) else ""
        for i, (x, y) in enumerate(zip(a, b)):
            d = first_diff(x, y, f"{path}/{tag}[{i}]")
            if d:
                return d
        return None
    if isinstance(a, np.ndarray):
        return None if snap_equal(a, b) else path
    return None if a == b else path


# --------------------------------------------------------------------------


class Shared:
    def __init__(self, case):
        import osyris

        self.case = case
        cells = build_mesh(MESH)
        self.cells = cells
        self.dg = mesh_datagroup(MESH, cells)
        n = len(cells)
        self.layers = []
        keys = layer_keys(case)
        for k in range(3):
            kw = {}
            for o in OPTS:
                if case["layer_opts"][k][o]:
                    kw[o] = lvalue(case, o)
            self.layers.append(self.dg.layer(keys[k], **kw))
        # the marker size of the overlay: a number, or a length (Array / Quantity) in one of the units the call works in
        ss = case.get("scatter_size")
        size = {None: 2.0, "array_mm": osyris.Array(values=0.5, unit="mm"), "array_cm": osyris.Array(values=0.05, unit="cm"),
                "qty": 0.5 * osyris.units("mm")}[ss]
        self.scatter_layer = self.dg.layer("position", mode="scatter", s=size)
        self.res_dict = dict(case["res_dict"])
        import matplotlib.colors as mcolors

        self.norm_obj = mcolors.LogNorm()
        self.origin = osyris.Vector(0.4317, 0.5231, 0.6113, unit="cm")  # no sample point of any generated window lies on a cell face
        self.dir_vec = osyris.Vector(1.0, 2.0, 0.5)
        self.dir_basis = osyris.core.vector.VectorBasis(n=osyris.Vector(0.0, 1.0, 1.0), u=osyris.Vector(1.0, 0.0, 0.0))
        self.dir_basis_parts = [self.dir_basis.n, self.dir_basis.u, self.dir_basis.v]
        # window sizes given in other length units than the positions (cm): a conversion happens inside map()
        self.dxq = 9.0 * osyris.units("mm")
        self.dzq = 0.003 * osyris.units("m")
        self.bins_list = np.array([1.0, 3.0, 8.0, 20.0, 41.0])
        self.weights = osyris.Array(values=np.linspace(1.0, 2.0, n), unit="g", name="w")
        h = case["hist1d_layer"]
        kw = {}
        if h["bins"] == 4:
            kw["bins"] = 4
        elif h["bins"] == "list":
            kw["bins"] = np.array([0.0, 5.0, 10.0, 50.0])
        if h["weights"]:
            kw["weights"] = osyris.Array(values=np.linspace(3.0, 4.0, n), unit="g", name="lw")
        on = h.get("on", [True, True, True])
        self.h1_layers = [osyris.core.Layer(self.dg[key], **(kw if on[i] else {})) for i, key in enumerate(keys)]
        self.color = osyris.Array(values=np.arange(n, dtype=float) + 1.0, unit="K", name="col")
        self.size = osyris.Array(values=np.full(n, 0.01), unit="cm", name="sz")
        self.plot_dict = {"x": self.dg["density"], "y": self.dg["temperature"]}
        sg = np.linspace(-3.0, 40.0, n)
        sg[: max(1, n // 5)] = 0.0
        sg[0] = -3.0
        self.signed = osyris.Array(values=sg, unit="K", name="signed")
        self.signed_layer = osyris.core.Layer(self.signed)

    def everything(self):
        return {"dg": self.dg, "layers": self.layers, "scatter_layer": self.scatter_layer, "res_dict": self.res_dict, "origin": self.origin, "dxq": self.dxq, "dzq": self.dzq,
                "dir_vec": self.dir_vec, "norm_obj": self.norm_obj, "dir_basis": self.dir_basis_parts,
                "bins_list": self.bins_list, "weights": self.weights, "h1_layers": self.h1_layers, "color": self.color, "size": self.size,
                "plot_dict": self.plot_dict, "signed": self.signed, "signed_layer": self.signed_layer}


def layer_keys(case):
    """the quantity each of the three shared Layers shows; with "alias" two of them wrap the very same Array object
    (an image and contours of one quantity, with different layer-level options)"""
    keys = ["density", "temperature", "mass"]
    if case.get("alias"):
        a, b = case["alias"]
        keys[b] = keys[a]
    return keys


def lvalue(case, o):
    """layer-level value of option o (a case may ask for falsy-but-set values such as vmin=0)"""
    return case.get("layer_values", {}).get(o, LAYER_VALUES[o])


def cvalue(case, o):
    if o == "norm" and case.get("call_norm_object"):
        return "OBJ:log"  # the caller passes a matplotlib norm object (one object, kept and re-used across calls)
    return case.get("call_values", {}).get(o, CALL_VALUES[o])


def effective(case, call, k):
    """effective option values of layer k in this call"""
    out = {}
    for o in OPTS:
        if case["layer_opts"][k][o]:
            out[o] = lvalue(case, o)
        elif call["opts"][o]:
            out[o] = cvalue(case, o)
        else:
            out[o] = None
    return out


def call_kwargs(call, S, which="real", eff=None):
    """kwargs of the real call, or of the reference call for one layer (eff given)."""
    import matplotlib.colors as mcolors

    kw = {}
    for o in OPTS:
        if eff is None:
            if call["opts"][o]:
                kw[o] = cvalue(S.case, o)
        elif eff[o] is not None:
            kw[o] = eff[o]
    if kw.get("norm") == "OBJ:log":
        if call.get("plot") or call.get("fail"):
            kw["norm"] = "log"  # (matplotlib itself fills the limits of a norm object when it draws)
        else:
            kw["norm"] = S.norm_obj if eff is None else mcolors.LogNorm()
    return kw


def run_call(case, call, S, sims, reference_layer=None):
    """Execute one call (or its reference for one layer index).  Returns the Plot."""
    import osyris
    import matplotlib.pyplot as plt

    fn = call["fn"]
    rng = core.rng_for(call["sched_seed"], "sched", reference_layer if reference_layer is not None else -1)

    def factory():
        s = Sim(T=call["T"], partition={"kind": "static-equal"}, policy={"kind": "random", "p": 0.2}, rng=rng)
        sims.append(s)
        return s

    keys = layer_keys(case)
    try:
        if fn == "map":
            if reference_layer is None:
                layers = [S.layers[k] for k in call["layers"]]
                if call.get("scatter_at") is not None:
                    layers.insert(min(call["scatter_at"], len(layers)), S.scatter_layer)
                kw = call_kwargs(call, S)
            else:
                layers = [S.dg.layer(keys[reference_layer])]
                kw = call_kwargs(call, S, eff=effective(case, call, reference_layer))
            if call["resolution"] == "shared-dict":
                kw["resolution"] = S.res_dict if reference_layer is None else dict(case["res_dict"])
            elif call["resolution"] == "int":
                kw["resolution"] = 5
            else:
                kw["resolution"] = {"x": 3, "y": 4}
            kw["dx"] = S.dxq
            if call["thick"]:
                kw["dz"] = S.dzq
            if call["use_origin"]:
                kw["origin"] = S.origin
            if call.get("fail") == "norm" and reference_layer is None:
                kw["norm"] = "cubic"
            if call.get("fail") == "nocell" and reference_layer is None:
                kw["origin"] = osyris.Vector(50.0, 50.0, 50.0, unit="cm")
                kw["dx"] = 0.01 * osyris.units("cm")
            kw["plot"] = bool(call.get("plot")) and reference_layer is None
            d = call.get("direction")
            if d in ("x", "zyx", "top", "side"):
                kw["direction"] = d
            elif d == "vec":
                kw["direction"] = S.dir_vec if reference_layer is None else osyris.Vector(1.0, 2.0, 0.5)
            elif d == "basis":
                kw["direction"] = S.dir_basis if reference_layer is None else osyris.core.vector.VectorBasis(n=osyris.Vector(0.0, 1.0, 1.0), u=osyris.Vector(1.0, 0.0, 0.0))
            with Seam("osyris.plot.map", "evaluate_on_grid", factory):
                with np.errstate(all="ignore"), contextlib.redirect_stdout(io.StringIO()):
                    return osyris.map(*layers, **kw)
        if fn == "histogram2d":
            if reference_layer is None:
                layers = [S.layers[k] for k in call["layers"]]
                if call.get("bare_first"):
                    layers = [S.dg["mass"]] + layers
                kw = call_kwargs(call, S)
            else:
                layers = [S.dg.layer(keys[reference_layer])]
                kw = call_kwargs(call, S, eff=effective(case, call, reference_layer))
            kw["resolution"] = 4
            if call["limits"]:
                kw.update(xmin=0.5, xmax=45.0, ymin=900.0, ymax=1200.0)
            if call.get("fail") == "norm" and reference_layer is None:
                kw["norm"] = "cubic"
            kw["plot"] = bool(call.get("plot")) and reference_layer is None
            with Seam("osyris.plot.histogram2d", "hist2d", factory):
                with np.errstate(all="ignore"):
                    return osyris.histogram2d(S.dg["density"], S.dg["temperature"], *layers, **kw)
        if fn == "histogram1d" and call.get("signed"):
            try:
                lay = S.signed_layer if reference_layer is None else osyris.core.Layer(S.signed.copy())
                return osyris.histogram1d(lay, bins=S.bins_list if reference_layer is None else S.bins_list.copy(), logx=bool(call.get("logx")))
            finally:
                plt.close("all")
        if fn == "histogram1d":
            k = call["layers"][-1] if reference_layer is None else reference_layer
            kw = {}
            if call.get("logx"):
                kw["logx"] = True
            h = case["hist1d_layer"]
            if not h.get("on", [True, True, True])[k]:
                h = {"bins": None, "weights": False}
            if reference_layer is None:
                layer = [S.h1_layers[j] for j in call["layers"]]
                if call.get("bare_first") and not call.get("signed"):
                    layer = [S.dg["mass"]] + layer
                if call["bins_call"] == 5:
                    kw["bins"] = 5
                elif call["bins_call"] == "shared-list":
                    kw["bins"] = S.bins_list
                if call["weights_call"]:
                    kw["weights"] = S.weights
            else:
                layer = osyris.core.Layer(S.dg[keys[k]])
                # effective bins / weights at call level
                if h["bins"] == 4:
                    kw["bins"] = 4
                elif h["bins"] == "list":
                    kw["bins"] = np.array([0.0, 5.0, 10.0, 50.0])
                elif call["bins_call"] == 5:
                    kw["bins"] = 5
                elif call["bins_call"] == "shared-list":
                    kw["bins"] = S.bins_list.copy()
                if h["weights"]:
                    kw["weights"] = osyris.Array(values=np.linspace(3.0, 4.0, len(S.cells)), unit="g")
                elif call["weights_call"]:
                    kw["weights"] = S.weights.copy()
            try:
                return osyris.histogram1d(*layer, **kw) if isinstance(layer, list) else osyris.histogram1d(layer, **kw)
            finally:
                plt.close("all")
        if fn == "scatter":
            kw = {}
            if call["color"] == "str":
                kw["color"] = "red"
            elif call["color"] == "array":
                kw["color"] = S.color
            if call["size"] == "float":
                kw["size"] = 3.0
            elif call["size"] == "array":
                kw["size"] = S.size
            try:
                return osyris.scatter(S.dg["position"].x, S.dg["position"].y, **kw)
            finally:
                plt.close("all")
        if fn == "plot":
            try:
                if call["as_dict"]:
                    return osyris.plot(S.plot_dict)
                ys = [S.dg["temperature"], S.dg["temperature"]][: call["ny"]]
                return osyris.plot(S.dg["density"], *ys)
            finally:
                plt.close("all")
    finally:
        if fn in ("map", "histogram2d") and call.get("plot"):
            plt.close("all")
    raise HarnessError("unknown function")


def plot_digest(fn, P):
    """Comparable content of a Plot."""
    out = {"x": None if P.x is None else np.asarray(P.x, dtype=float), "y": None if P.y is None else np.asarray(P.y, dtype=float), "layers": []}
    layers = P.layers if isinstance(P.layers, list) else ([P.layers] if P.layers is not None else [])
    for l in layers:
        d = l.get("data")
        ent = {"mode": l.get("mode"), "unit": str(l.get("unit")), "name": l.get("name")}
        if d is not None:
            ent["data"] = np.ma.getdata(d).astype(float)
            ent["mask"] = np.ma.getmaskarray(d)
        out["layers"].append(ent)
    return out


def digests_equal(a, b):
    for k in ("x", "y"):
        if (a[k] is None) != (b[k] is None):
            return f"{k}-presence"
        if a[k] is not None and (a[k].shape != b[k].shape or not np.allclose(a[k], b[k], rtol=1e-12, atol=0, equal_nan=True)):
            return k
    if len(a["layers"]) != len(b["layers"]):
        return "layer-count"
    for i, (la, lb) in enumerate(zip(a["layers"], b["layers"])):
        d = layer_equal(la, lb)
        if d:
            return f"layer{i}:{d}"
    return None


def layer_equal(la, lb, check_mode=True):
    if check_mode and la["mode"] != lb["mode"]:
        return "mode"
    if la["unit"] != lb["unit"]:
        return "unit"
    if ("data" in la) != ("data" in lb):
        return "data-presence"
    if "data" in la:
        if la["data"].shape != lb["data"].shape or not np.array_equal(la["mask"], lb["mask"]):
            return "mask"
        ma = ~la["mask"]
        if not np.allclose(la["data"][ma], lb["data"][ma], rtol=1e-10, atol=1e-300, equal_nan=True):
            return "data"
    return None


def big_scenario(bg, viol, stats):
    """'Calling again with the same arguments returns the same data' at a size where libraries switch code paths: the shipped
    histogram2d on 10^5 points, twice, with all numba threads (a stress run with real threads: it can show that repeated calls
    differ, never that they cannot; the record carries no run-dependent numbers so that the replay is stable)."""
    import numba
    import osyris

    stats.inc("probe.large_histogram2d_repeated")
    n = bg["n"]
    g = np.random.default_rng(bg["seed"])
    x = osyris.Array(values=g.uniform(1.0, 2.0, n), unit="cm", name="xq")
    y = osyris.Array(values=g.uniform(-1.0, 3.0, n), unit="s", name="yq")
    w = osyris.Array(values=g.integers(1, 7, n).astype(float), unit="g", name="w")
    keep = [a.values.copy() for a in (x, y, w)]
    old = numba.get_num_threads()
    numba.set_num_threads(numba.config.NUMBA_NUM_THREADS)
    try:
        outs = []
        for _ in range(2):
            with np.errstate(all="ignore"):
                P = osyris.histogram2d(x, y, osyris.core.Layer(w, operation=bg["op"]), resolution=bg["res"], plot=False)
            outs.append(np.ma.filled(P.layers[0]["data"], np.nan).copy())
    except Exception as e:
        viol.append({"class": "frontend-exception", "clause": "large-histogram2d", "key": {"class": "frontend-exception", "clause": "large-histogram2d", "fn": "histogram2d"},
                     "detail": {"error": f"{type(e).__name__}: {e}"[:200], "step": 0, "call": {"fn": "histogram2d", "big": bg}}})
        return
    finally:
        numba.set_num_threads(old)
    if not np.array_equal(outs[0], outs[1], equal_nan=True):
        viol.append({"class": "repeat", "clause": "large-histogram2d", "key": {"class": "repeat", "clause": "large-histogram2d", "fn": "histogram2d"},
                     "detail": {"n": n, "note": "two identical calls returned different data", "step": 0, "call": {"fn": "histogram2d", "big": bg}}})
    elif any(not np.array_equal(a.values, k) for a, k in zip((x, y, w), keep)):
        viol.append({"class": "input-modified", "clause": "large-histogram2d", "key": {"class": "input-modified", "clause": "large-histogram2d", "fn": "histogram2d"},
                     "detail": {"n": n, "step": 0, "call": {"fn": "histogram2d", "big": bg}}})


def execute(case, stats):
    import matplotlib.colors as mcolors

    viol = []
    res = {"violations": viol, "nontrivial": False}
    if case.get("big"):
        big_scenario(case["big"], viol, stats)
        if viol:
            res["signature"] = core.digest(case)[:20]
            return res

    def V(cls, clause, detail, step, call):
        viol.append({"class": cls, "clause": clause, "key": {"class": cls, "clause": clause, "fn": call["fn"]}, "detail": dict(detail, step=step, call=call)})

    S = Shared(case)
    seen = {}
    shared_twice = False
    both_levels = False
    used = set()
    for step, call in enumerate(case["calls"]):
        if viol:
            break
        fn = call["fn"]
        stats.inc("steps.plot_calls")
        stats.inc("swarm.fn=" + fn)
        stats.add("call_bigrams", (case["calls"][step - 1]["fn"] if step else "^") + ">" + fn)
        before = [(k, snap(v)) for k, v in S.everything().items()]
        sims = []
        try:
            P = run_call(case, call, S, sims)
            err = None
        except KernelError as e:
            V("kernel-exception", fn, {"error": str(e)[:200]}, step, call)
            break
        except HarnessError:
            raise
        except Exception as e:
            P, err = None, f"{type(e).__name__}: {e}"[:160]
        stats.inc("steps.memory_events", sum(s.nevents for s in sims))
        stats.inc("steps.context_switches", sum(s.switches for s in sims))
        after = [(k, snap(v)) for k, v in S.everything().items()]
        if not snap_equal(before, after):
            V("input-modified", fn, {"where": first_diff(before, after), "raised": err}, step, call)
            break
        if call.get("fail"):
            stats.inc("fault.failing_call_" + call["fail"])
            # an unknown call-level norm only matters for layers that do not set their own
            must_fail = call["fail"] != "norm" or not call.get("layers") or any(not case["layer_opts"][k]["norm"] for k in call["layers"])
            if err is None and call["fail"] == "nocell":
                # an empty window is a provoked failure, not a required one (with "top"/"side" the call returns an empty map)
                stats.inc("probe.empty_window_call_did_not_fail")
            elif err is None and must_fail:
                V("failing-call", "no-error", {"fail": call["fail"]}, step, call)
            if err is None and not must_fail:
                stats.inc("probe.unknown_call_norm_shadowed_by_layer_norm")
            continue
        if err is not None:
            if call.get("plot"):
                # matplotlib rejected the rendering (e.g. contourf of an almost empty map with fixed limits):
                # outside the property; the inputs were still verified unmodified above
                stats.inc("ambig.rendering_failed_in_matplotlib")
                continue
            V("call-raised", fn, {"error": err}, step, call)
            break
        marks = [("layer", k) for k in call.get("layers", [])] + ([("res", 0)] if call.get("resolution") == "shared-dict" else []) + [("dg", 0)]
        if any(mk in used for mk in marks if mk[0] != "dg") or (("dg", 0) in used):
            shared_twice = True
        used.update(marks)
        dg_ = plot_digest(fn, P)
        key = core.dumps({k: v for k, v in call.items() if k not in ("sched_seed", "T")})
        if key in seen:
            d = digests_equal(seen[key], dg_)
            stats.inc("probe.identical_call_repeated")
            if d:
                V("repeat", "same-call-different-result", {"where": d, "first_step": None}, step, call)
                break
        else:
            seen[key] = dg_
        if call.get("bare_first"):
            # a bare Array ahead of the Layers: the inputs were verified unmodified and the repetition compared above; the
            # per-layer precedence clauses (which index the returned layers by position) are judged on the other calls
            stats.inc("probe.bare_array_ahead_of_layer_objects")
            continue
        # ---- precedence: every layer equals the reference call with the effective options at call level
        if fn in ("map", "histogram2d") and call.get("layers"):
            for pos, k in enumerate(call["layers"]):
                eff = effective(case, call, k)
                for o in OPTS:
                    if case["layer_opts"][k][o] and call["opts"][o]:
                        both_levels = True
                        stats.inc("probe.option_set_at_both_levels")
                lay = P.layers[pos]
                # directly observable: mode, norm class, vmin/vmax, extra kwarg
                if lay["mode"] != eff["mode"]:
                    V("precedence", "mode", {"layer": k, "got": lay["mode"], "want": eff["mode"]}, step, call)
                    break
                nrm = lay["params"].get("norm")
                want_cls = mcolors.LogNorm if eff["norm"] in ("log", "OBJ:log") else mcolors.Normalize
                if type(nrm) is not want_cls:
                    V("precedence", "norm", {"layer": k, "got": type(nrm).__name__, "want": want_cls.__name__}, step, call)
                    break
                rendered = bool(call.get("plot"))  # matplotlib fills unset limits from the data when it draws
                if not rendered and eff["norm"] != "OBJ:log" and (nrm.vmin != eff["vmin"] or nrm.vmax != eff["vmax"]):
                    V("precedence", "vmin-vmax", {"layer": k, "got": [nrm.vmin, nrm.vmax], "want": [eff["vmin"], eff["vmax"]]}, step, call)
                    break
                if lay["params"].get("cmap") != eff["cmap"]:
                    V("precedence", "extra-kwarg", {"layer": k, "got": lay["params"].get("cmap"), "want": eff["cmap"]}, step, call)
                    break
                try:
                    R = run_call(case, call, S, [], reference_layer=k)
                except Exception as e:
                    V("precedence", "reference-call-raised", {"layer": k, "error": f"{type(e).__name__}: {e}"[:160]}, step, call)
                    break
                rd = plot_digest(fn, R)
                d = layer_equal(dg_["layers"][pos], rd["layers"][0])
                if d:
                    V("precedence", "operation" if d in ("data", "mask", "unit") else d, {"layer": k, "where": d, "effective": eff}, step, call)
                    break
        if fn == "histogram1d":
            k = call["layers"][-1]
            try:
                R = run_call(case, call, S, [], reference_layer=k)
                d = digests_equal(dg_, plot_digest(fn, R))
                if d:
                    V("precedence", "bins-weights", {"where": d, "layer_opts": case["hist1d_layer"]}, step, call)
            except Exception as e:
                V("precedence", "reference-call-raised", {"error": f"{type(e).__name__}: {e}"[:160]}, step, call)
            if case["hist1d_layer"]["bins"] is not None and call["bins_call"] is not None and case["hist1d_layer"].get("on", [True] * 3)[k]:
                both_levels = True
            if len(call["layers"]) > 1:
                stats.inc("probe.histogram1d_with_several_layers")
    res["signature"] = core.digest(case)[:20]
    res["nontrivial"] = bool(shared_twice and both_levels)
    return res


def measure(case):
    return (len(case["calls"]) + (100 if case.get("big") else 0), sum(sum(o.values()) for o in case["layer_opts"]), len(core.dumps(case["calls"])), len(case["res_dict"]))


def reductions(case, viol):
    if case.get("big"):
        c = dict(case)
        del c["big"]
        yield c
        yield dict(case, calls=case["calls"][:1])
    yield from list_reductions(case, "calls")
    if case.get("alias"):
        yield {k: v for k, v in case.items() if k != "alias"}
    if case.get("scatter_size"):
        yield {k: v for k, v in case.items() if k != "scatter_size"}
    for k in range(3):
        for o in OPTS:
            if case["layer_opts"][k][o]:
                lo = [dict(x) for x in case["layer_opts"]]
                lo[k][o] = False
                yield dict(case, layer_opts=lo)
    for i, c in enumerate(case["calls"]):
        for o in OPTS:
            if c["opts"][o]:
                cc = dict(c, opts=dict(c["opts"], **{o: False}))
                yield dict(case, calls=case["calls"][:i] + [cc] + case["calls"][i + 1:])
        if len(c.get("layers", [])) > 1:
            for j in range(len(c["layers"])):
                cc = dict(c, layers=c["layers"][:j] + c["layers"][j + 1:])
                yield dict(case, calls=case["calls"][:i] + [cc] + case["calls"][i + 1:])
        if c.get("T", 1) > 1:
            yield dict(case, calls=case["calls"][:i] + [dict(c, T=1)] + case["calls"][i + 1:])
        if c.get("scatter_at") is not None:
            yield dict(case, calls=case["calls"][:i] + [dict(c, scatter_at=None)] + case["calls"][i + 1:])
        if c.get("direction") is not None:
            yield dict(case, calls=case["calls"][:i] + [dict(c, direction=None)] + case["calls"][i + 1:])
        for flag in ("thick", "use_origin", "plot", "limits", "weights_call"):
            if c.get(flag):
                yield dict(case, calls=case["calls"][:i] + [dict(c, **{flag: False})] + case["calls"][i + 1:])
