"""C20 -- Datagroup/Dataset behave as insertion-ordered dicts; equality by content.

Engine H: histories of dict operations issued by 2 simulated holders on three
Datagroups and two Datasets that share member objects, against a Python-dict
reference model (+ shape gate, type gate, renaming).  Faults = operations that
must be rejected (mis-shaped value, non-Datagroup into a Dataset, missing key).
"""
import importlib
import warnings

import numpy as np

from sim import core
from sim.core import HarnessError
from sim.history import UNIT_FACTOR, list_reductions

PROPERTY = "C20"
ENGINE = "H"
DEFAULT_SEED = 2020
RUNS = {"quick": 6000, "thorough": 400000}
JOBS = {"quick": 8, "thorough": 16}
SEARCH_SPACE = "operation histories (set/del/pop/get/update/clear/copy/iterate/membership/==) of holders sharing member objects, with rejected operations as faults"
RULE = ("one run = one history of 4..40 dict operations over 3 Datagroups + 2 Datasets (4-key alphabet, Array/Vector values of 3 shapes), "
        "checked step by step against a dict model; distinct = hash of the operation list; non-trivial = the history contains at least one "
        "rejected operation or one == between non-identical groups, and at least 3 state-changing operations")
ASSUMPTIONS = [
    "the statement only says mis-shaped insertions are rejected: replacing the sole member of a group by a value of another shape may be accepted or rejected",
    "update() with several items is judged item by item (not as one atomic operation)",
    "== on incompatible units, mixed Array/Vector members or unequal shapes must not be True; raising is accepted",
    "== across different units is generated only where the conversion factor rhs->lhs is an exact integer (rounding is not the subject)",
    "an object stored under several keys carries the key of its most recent successful insertion (after a copy: any key of the copy)",
    "a member holding a NaN is not element-wise equal to anything, itself included: groups sharing such a member object must not compare equal",
]
REAL_STUB = {"real": ["osyris.Datagroup", "osyris.Dataset", "osyris.Array", "osyris.Vector", "units"], "stub": []}
KEYS = ["a", "b", "c", "d"]
NG, ND = 3, 2


def prepare(tier):
    warnings.filterwarnings("ignore")
    importlib.import_module("osyris")


# --------------------------------------------------------------------------
# generation

EXACT_PAIRS = [("m", "km", 1000.0), ("cm", "m", 100.0), ("g", "kg", 1000.0), ("ms", "s", 1000.0)]


def gen_value(rng, n=None):
    n = n if n is not None else rng.choice([2, 3, 3, 4])
    # "arr2": an Array of shape (n, 2) or (n, 3) -- same length as an (n,) member, another shape
    kind = rng.choice(["arr", "arr", "arr", "arr", "vec", "vec", "arr2"])
    unit = rng.choice(["", "m", "cm", "km", "g", "s", "K"])
    nc = rng.choice([1, 2, 3]) if kind == "vec" else (rng.choice([2, 3]) if kind == "arr2" else 1)
    dtype = rng.choice(["f8", "f8", "i8"]) if kind == "arr" else "f8"
    vals = [[float(rng.randrange(-8, 9)) * (1.0 if dtype == "i8" else rng.choice([1.0, 0.5, 0.25])) for _ in range(n)] for _ in range(nc)]
    if dtype == "f8" and rng.random() < 0.08:
        # an undefined entry (NaN): such a member is not element-wise equal to anything, itself included
        vals[rng.randrange(nc)][rng.randrange(n)] = float("nan")
    return {"kind": kind, "unit": unit, "vals": vals, "dtype": dtype}


def gen_ops(rng, nops):
    ops = []
    for _ in range(nops):
        h = rng.randrange(2)
        r = rng.random()
        g = rng.randrange(NG)
        key = rng.choice(KEYS)
        if r < 0.30:
            ops.append({"op": "set", "h": h, "g": g, "key": key, "val": gen_value(rng, n=rng.choice([3, 3, 3, 2, 4]))})
        elif r < 0.36:
            ops.append({"op": "share", "h": h, "g": g, "key": key, "from_g": rng.randrange(NG), "from_key": rng.choice(KEYS)})
        elif r < 0.42:
            ops.append({"op": "del", "h": h, "g": g, "key": key})
        elif r < 0.48:
            ops.append({"op": "pop", "h": h, "g": g, "key": key})
        elif r < 0.54:
            ops.append({"op": "get", "h": h, "g": g, "key": key})
        elif r < 0.58:
            ops.append({"op": "getitem", "h": h, "g": g, "key": key})
        elif r < 0.65:
            items = [[rng.choice(KEYS), gen_value(rng, n=rng.choice([3, 3, 2]))] for _ in range(rng.choice([1, 2, 3]))]
            ops.append({"op": "update", "h": h, "g": g, "items": items, "kw": rng.choice([True, False, "mix"])})
        elif r < 0.68:
            ops.append({"op": "clear", "h": h, "g": g})
        elif r < 0.73:
            ops.append({"op": "copy", "h": h, "g": g, "to": rng.randrange(NG), "how": rng.choice(["copy", "copy.copy"])})
        elif r < 0.80:
            mode = rng.choice(["same", "equal-copy", "reordered", "reordered", "one-different", "all-different", "units-exact", "units-different", "incompatible", "extra-key", "asis",
                               "dtype-other", "kind-other", "ncomp-other", "shallow-copy", "same"])
            ops.append({"op": "eq", "h": h, "g": g, "g2": rng.randrange(NG), "mode": mode, "pick": rng.randrange(8)})
        elif r < 0.86:
            ops.append({"op": "ds_set", "h": h, "d": rng.randrange(ND), "name": rng.choice(["mesh", "part", "x"]),
                        "what": rng.choice(["group", "group", "group", "group", "array", "dict", "none", "dataset", "dataset_self", "class", "vector", "ndarray", "str"]), "g": g})
        elif r < 0.89:
            ops.append({"op": "ds_del", "h": h, "d": rng.randrange(ND), "name": rng.choice(["mesh", "part", "x"])})
        elif r < 0.92:
            ops.append({"op": "ds_pop", "h": h, "d": rng.randrange(ND), "name": rng.choice(["mesh", "part", "x"])})
        elif r < 0.94:
            ops.append({"op": "ds_get", "h": h, "d": rng.randrange(ND), "name": rng.choice(["mesh", "part", "x"])})
        elif r < 0.96:
            ops.append({"op": "ds_update", "h": h, "d": rng.randrange(ND), "names": [rng.choice(["mesh", "part", "x"]) for _ in range(rng.choice([2, 3]))],
                        "gs": [rng.randrange(NG) for _ in range(3)], "kw": rng.choice([True, False, "mix", "mix"])})
        elif r < 0.975:
            ops.append({"op": "ds_clear", "h": h, "d": rng.randrange(ND)})
        else:
            ops.append({"op": "ds_copy", "h": h, "d": rng.randrange(ND), "to": rng.randrange(ND)})
    return ops


def generate(rng, tier):
    nops = rng.choice([4, 6, 8, 12, 16, 24, 40])
    return {"ops": gen_ops(rng, nops)}


def describe(case):
    return {"ops": case["ops"][:12], "n_ops": len(case["ops"])}


# --------------------------------------------------------------------------
# model + execution


def build(val):
    import osyris

    dt = {"f8": float, "i8": np.int64, "f4": np.float32, "i4": np.int32}[val.get("dtype", "f8")]
    if val["kind"] == "arr":
        return osyris.Array(values=np.array(val["vals"][0], dtype=dt), unit=val["unit"])
    if val["kind"] == "arr2":
        return osyris.Array(values=np.array(val["vals"], dtype=dt if dt in (np.float32,) else float).T.copy(), unit=val["unit"])
    comps = [np.array(v, dtype=dt if dt in (np.float32,) else float) for v in val["vals"]]
    return osyris.Vector(*comps, unit=val["unit"])


def mshape(val):
    if val["kind"] == "arr2":
        return (len(val["vals"][0]), len(val["vals"]))
    return (len(val["vals"][0]),)


def raw(obj):
    import osyris

    if isinstance(obj, osyris.Vector):
        return [np.array(c.values) for c in core.vcomps(obj)]
    v = np.array(obj.values)
    if v.ndim == 2:
        return [v[:, j] for j in range(v.shape[1])]
    return [v]


def rng_pick(k, options):
    return options[k % len(options)]


def model_equal(va, vb):
    """Independent content equality of two value specs: None = not judged."""
    if va["kind"] != vb["kind"] or len(va["vals"]) != len(vb["vals"]):
        return "not-true"
    if mshape(va) != mshape(vb):
        return "not-true"
    fa, fb = UNIT_FACTOR[va["unit"]], UNIT_FACTOR[vb["unit"]]
    if fa[0] != fb[0]:
        return "not-true"
    ratio = fb[1] / fa[1]  # rhs -> lhs
    if ratio != int(ratio) and ratio != 1.0:
        return None
    a = np.array(va["vals"], dtype=float)
    b = np.array(vb["vals"], dtype=float) * ratio
    return bool(np.array_equal(a, b))


class World:
    def __init__(self):
        import osyris

        self.os = osyris
        self.groups = [osyris.Datagroup() for _ in range(NG)]
        self.mgroups = [dict() for _ in range(NG)]  # key -> (object, valspec)
        self.ds = [osyris.Dataset() for _ in range(ND)]
        self.mds = [dict() for _ in range(ND)]  # name -> group index
        self.mmeta = [dict() for _ in range(ND)]
        for d in range(ND):
            self.ds[d].meta["tag"] = d
            self.mmeta[d]["tag"] = d

    def gshape(self, g):
        m = self.mgroups[g]
        if not m:
            return ()
        return mshape(next(iter(m.values()))[1])


def execute(case, stats):
    import copy as _copy

    viol = []
    res = {"violations": viol, "nontrivial": False}
    W = World()
    osy = W.os
    n_reject = n_change = n_eq = 0

    def V(step, op, clause, detail):
        viol.append({"class": "dict-behaviour" if clause != "equality" else "equality", "clause": clause,
                     "key": {"op": op["op"], "clause": clause}, "detail": dict(detail, step=step, op=op)})

    def do_set(g, key, obj, val, step, op, clause="set"):
        """One insertion: returns True when the state changed."""
        m = W.mgroups[g]
        shape = W.gshape(g)
        vshape = mshape(val)
        must_reject = bool(shape) and shape != vshape and not (len(m) == 1 and key in m)
        may_reject = bool(shape) and shape != vshape
        before = list(W.groups[g].keys())
        try:
            W.groups[g][key] = obj
            ok = True
        except ValueError:
            ok = False
        except Exception as e:
            V(step, op, clause, {"unexpected_exception": f"{type(e).__name__}: {e}"[:200]})
            return None
        if ok and must_reject:
            V(step, op, "shape-gate", {"inserted_shape": list(vshape), "group_shape": list(shape)})
            return None
        if not ok and not may_reject:
            V(step, op, clause, {"rejected_valid_insertion": True, "group_shape": list(shape), "value_shape": list(vshape)})
            return None
        if not ok:
            stats.inc("fault.rejected_misshaped_insertion")
            if list(W.groups[g].keys()) != before:
                V(step, op, "shape-gate", {"rejected_but_changed": True})
                return None
            return False
        m[key] = (obj, val)
        allowed[id(obj)] = {key}
        # renamed to its key
        if obj.name != key:
            V(step, op, "rename", {"name": obj.name, "key": key})
            return None
        # (how the components of a Vector are named is not part of the statement)
        return True

    allowed = {}  # id(stored object) -> names it may carry: the key of its most recent successful insertion
    for step, op in enumerate(case["ops"]):
        if viol:
            break
        k = op["op"]
        stats.inc("steps.operations")
        stats.add("op_bigrams", (case["ops"][step - 1]["op"] if step else "^") + ">" + k)
        try:
            if k == "set":
                obj = build(op["val"])
                r = do_set(op["g"], op["key"], obj, op["val"], step, op)
                if r is False:
                    n_reject += 1
                elif r:
                    n_change += 1
            elif k == "share":
                src = W.mgroups[op["from_g"]].get(op["from_key"])
                if src is None:
                    continue
                r = do_set(op["g"], op["key"], src[0], src[1], step, op)
                if r:
                    n_change += 1
                    stats.inc("probe.member_shared_between_groups")
                elif r is False:
                    n_reject += 1
            elif k in ("del", "pop", "getitem"):
                g, key = op["g"], op["key"]
                m = W.mgroups[g]
                try:
                    if k == "del":
                        del W.groups[g][key]
                        out = None
                    elif k == "pop":
                        out = W.groups[g].pop(key)
                    else:
                        out = W.groups[g][key]
                    raised = None
                except KeyError:
                    raised = "KeyError"
                if key in m:
                    if raised:
                        V(step, op, "keyerror", {"raised_for_present_key": True})
                    elif k != "del" and out is not m[key][0]:
                        V(step, op, "identity", {"returned_other_object": True})
                    if k in ("del", "pop") and not raised:
                        del m[key]
                        n_change += 1
                else:
                    if not raised:
                        V(step, op, "keyerror", {"no_error_for_missing_key": True})
                    else:
                        stats.inc("fault.missing_key")
                        n_reject += 1
            elif k == "get":
                g, key = op["g"], op["key"]
                sentinel = object()
                out = W.groups[g].get(key, sentinel)
                m = W.mgroups[g]
                if (key in m and out is not m[key][0]) or (key not in m and out is not sentinel):
                    V(step, op, "get", {"present": key in m})
            elif k == "update":
                g = op["g"]
                items = [(kk, build(v), v) for kk, v in op["items"]]
                # judged item by item: replay it as the sequence of insertions it stands for, on the model,
                # and compare the final state (an exception may stop it early)
                d = {kk: o for kk, o, v in items}
                vals = {kk: v for kk, o, v in items}
                pre_keys = list(W.groups[g].keys())
                try:
                    if op["kw"] == "mix" and len(items) > 1:
                        # dict.update(mapping, **kwargs): the mapping first, then the keywords (which win on shared keys)
                        pos_items = dict([(kk, o) for kk, o, v in items[:-1]])
                        kw_items = {items[-1][0]: items[-1][1]}
                        W.groups[g].update(pos_items, **kw_items)
                        ref = dict(pos_items)
                        ref.update(kw_items)
                        d = ref
                        vals = {kk: v for kk, o, v in items}
                        vals[items[-1][0]] = items[-1][2]
                    elif op["kw"]:
                        W.groups[g].update(**d)
                    else:
                        W.groups[g].update(d)
                    raised = False
                except ValueError:
                    raised = True
                    stats.inc("fault.rejected_misshaped_insertion")
                    n_reject += 1
                # model: insert in dict order until the first rejected item
                m = W.mgroups[g]
                for kk, o in d.items():
                    shape = W.gshape(g)
                    vs = mshape(vals[kk])
                    bad = bool(shape) and shape != vs
                    if bad:
                        if not raised and not (len(m) == 1 and kk in m):
                            V(step, op, "shape-gate", {"update_inserted_misshaped": kk})
                        if raised:
                            break
                    m[kk] = (o, vals[kk])
                    allowed[id(o)] = {kk}
                    n_change += 1
            elif k == "clear":
                W.groups[op["g"]].clear()
                W.mgroups[op["g"]].clear()
                n_change += 1
            elif k == "copy":
                g, t = op["g"], op["to"]
                new = W.groups[g].copy() if op["how"] == "copy" else _copy.copy(W.groups[g])
                if new is W.groups[g]:
                    V(step, op, "copy", {"copy_is_same_object": True})
                if not isinstance(new, osy.Datagroup):
                    V(step, op, "copy", {"type": type(new).__name__})
                # the copy replaces group slot `to` (dataset entries keep pointing at the old object: forget them)
                old = W.groups[t]
                for d in range(ND):
                    for name in [n for n, gi in W.mds[d].items() if gi == t]:
                        if W.ds[d].groups.get(name) is old:
                            W.mds[d][name] = ("detached", old)
                W.groups[t] = new
                W.mgroups[t] = dict(W.mgroups[g])
                for kk_, (o_, v_) in W.mgroups[g].items():
                    # a copy may or may not re-insert the members: the name is the last insertion key, or any key of the copy
                    allowed.setdefault(id(o_), set()).add(kk_)
                n_change += 1
            elif k == "eq":
                g = op["g"]
                A = W.groups[g]
                mA = W.mgroups[g]
                if not mA:
                    continue
                mode = op["mode"]
                if mode == "asis":
                    B, mB = W.groups[op["g2"]], W.mgroups[op["g2"]]
                else:
                    # build a partner group from the model of A
                    specs = {kk: _copy.deepcopy(v) for kk, (o, v) in mA.items()}
                    keys = list(specs)
                    pk = keys[op["pick"] % len(keys)]
                    if mode == "same":
                        pass
                    elif mode == "equal-copy":
                        pass
                    elif mode == "dtype-other":
                        # the same numbers stored with another width (float32 for float64, int32 for int64): equal by content
                        specs[pk]["dtype"] = {"f8": "f4", "i8": "i4"}.get(specs[pk].get("dtype", "f8"), "f4")
                        stats.inc("probe.eq_same_content_other_dtype")
                    elif mode == "ncomp-other":
                        # a Vector with one component more or less; the shared leading components hold the same numbers
                        if specs[pk]["kind"] == "vec":
                            vs_ = specs[pk]["vals"]
                            specs[pk] = dict(specs[pk], vals=(vs_[:-1] if len(vs_) > 1 and op["pick"] % 2 else vs_ + [list(vs_[-1])])[:3] if len(vs_) < 3 or op["pick"] % 2 else vs_[:-1])
                        stats.inc("probe.eq_vectors_with_other_component_count")
                    elif mode == "kind-other":
                        # an Array against a Vector whose every component holds the Array's numbers (or the other way round)
                        if specs[pk]["kind"] == "arr":
                            specs[pk] = dict(specs[pk], kind="vec", vals=[list(specs[pk]["vals"][0]) for _ in range(rng_pick(op["pick"], [1, 2, 3]))], dtype="f8")
                        elif specs[pk]["kind"] == "vec":
                            specs[pk] = dict(specs[pk], kind="arr", vals=[list(specs[pk]["vals"][0])], dtype="f8")
                        stats.inc("probe.eq_array_against_vector_of_same_numbers")
                    elif mode == "one-different":
                        specs[pk]["vals"][0][0] += 1.0
                    elif mode == "all-different":
                        for s in specs.values():
                            s["vals"] = [[x + 1.0 for x in c] for c in s["vals"]]
                    elif mode == "units-exact":
                        for lhs, rhs, f in EXACT_PAIRS:
                            if specs[pk]["unit"] == lhs:
                                specs[pk]["unit"] = rhs
                                specs[pk]["vals"] = [[x / f for x in c] for c in specs[pk]["vals"]]
                                specs[pk]["dtype"] = "f8"
                                break
                    elif mode == "units-different":
                        for lhs, rhs, f in EXACT_PAIRS:
                            if specs[pk]["unit"] == lhs:
                                specs[pk]["unit"] = rhs  # same numbers, bigger unit: different quantity
                                break
                    elif mode == "incompatible":
                        specs[pk]["unit"] = "g" if UNIT_FACTOR[specs[pk]["unit"]][0] != "mass" else "s"
                    elif mode == "extra-key":
                        extra = next((kk for kk in KEYS if kk not in specs), None)
                        if extra is None:
                            del specs[pk]
                        else:
                            specs[extra] = _copy.deepcopy(specs[pk])
                    if mode == "reordered":
                        # same keys, same contents, another insertion order: equality is by content
                        specs = {kk: specs[kk] for kk in reversed(list(specs))}
                        if len(specs) > 1:
                            stats.inc("probe.eq_same_content_other_key_order")
                    mB = {kk: (None, s) for kk, s in specs.items()}
                    if mode == "same":
                        B, mB = A, mA
                    elif mode == "shallow-copy":
                        # another group holding the very same member objects
                        B, mB = A.copy(), mA
                        for kk_, (o_, v_) in mA.items():
                            allowed.setdefault(id(o_), set()).add(kk_)  # (a copy may re-insert the members under their keys)
                    else:
                        B = osy.Datagroup()
                        for kk, s in specs.items():
                            B[kk] = build(s)
                # model verdict
                if set(mA) != set(mB):
                    want = False
                else:
                    es = [model_equal(mA[kk][1], mB[kk][1]) for kk in mA]
                    if "not-true" in es:
                        want = "not-true"
                    elif any(e is None for e in es):
                        want = None
                    else:
                        want = all(es)
                if want is None:
                    stats.inc("ambig.equality_with_inexact_conversion")
                    continue
                n_eq += 1 if B is not A else 0
                if any(np.isnan(np.array(v["vals"], dtype=float)).any() for (o, v) in mA.values()) and mB is mA:
                    stats.inc("probe.eq_of_groups_sharing_a_member_that_holds_nan")
                try:
                    got = A == B
                    raised = None
                except Exception as e:
                    got, raised = None, type(e).__name__
                if want == "not-true":
                    stats.inc("probe.eq_incomparable_members")
                    if got is True:
                        V(step, op, "equality", {"want": "not True", "got": True, "mode": mode})
                elif raised:
                    V(step, op, "equality", {"want": want, "raised": raised, "mode": mode})
                elif bool(got) != want or not isinstance(got, (bool, np.bool_)):
                    V(step, op, "equality", {"want": want, "got": repr(got)[:80], "mode": mode})
                stats.inc(f"probe.eq_{'equal' if want is True else 'different'}")
            elif k == "ds_set":
                d, name = op["d"], op["name"]
                if op["what"] == "group":
                    val = W.groups[op["g"]]
                    W.ds[d][name] = val
                    W.mds[d][name] = op["g"]
                    n_change += 1
                    if val.name != name or getattr(val, "parent", None) is not W.ds[d]:
                        V(step, op, "rename", {"group_name": val.name, "parent_ok": getattr(val, "parent", None) is W.ds[d]})
                else:
                    # anything that is not a Datagroup -- including things that look like one (another Dataset, the class itself)
                    junk = {"array": lambda: osy.Array(values=[1.0, 2.0]), "dict": lambda: {"a": 1}, "none": lambda: None,
                            "dataset": lambda: osy.Dataset(), "dataset_self": lambda: W.ds[d], "class": lambda: osy.Datagroup,
                            "vector": lambda: osy.Vector(x=[1.0, 2.0], y=[0.0, 1.0]), "ndarray": lambda: np.arange(3.0), "str": lambda: "mesh"}[op["what"]]()
                    before = list(W.ds[d].keys())
                    try:
                        W.ds[d][name] = junk
                        V(step, op, "type-gate", {"accepted": op["what"]})
                    except TypeError:
                        stats.inc("fault.rejected_non_datagroup")
                        n_reject += 1
                        if list(W.ds[d].keys()) != before:
                            V(step, op, "type-gate", {"rejected_but_changed": True})
            elif k in ("ds_del", "ds_pop"):
                d, name = op["d"], op["name"]
                try:
                    if k == "ds_del":
                        del W.ds[d][name]
                        out = None
                    else:
                        out = W.ds[d].pop(name)
                    raised = False
                except KeyError:
                    raised = True
                if name in W.mds[d]:
                    if raised:
                        V(step, op, "keyerror", {"raised_for_present_key": True})
                    else:
                        want = W.mds[d].pop(name)
                        wobj = want[1] if isinstance(want, tuple) else W.groups[want]
                        if k == "ds_pop" and out is not wobj:
                            V(step, op, "identity", {"returned_other_object": True})
                        n_change += 1
                elif not raised:
                    V(step, op, "keyerror", {"no_error_for_missing_key": True})
                else:
                    stats.inc("fault.missing_key")
                    n_reject += 1
            elif k == "ds_get":
                d, name = op["d"], op["name"]
                sentinel = object()
                out = W.ds[d].get(name, sentinel)
                if name in W.mds[d]:
                    want = W.mds[d][name]
                    wobj = want[1] if isinstance(want, tuple) else W.groups[want]
                    if out is not wobj:
                        V(step, op, "get", {"present": True})
                elif out is not sentinel:
                    V(step, op, "get", {"present": False})
            elif k == "ds_update":
                d = op["d"]
                pairs = list(zip(op["names"], op["gs"]))
                if op["kw"] == "mix" and len(pairs) > 1:
                    pos = {}
                    for n, g in pairs[:-1]:
                        pos[n] = g
                    kwp = {pairs[-1][0]: pairs[-1][1]}
                    W.ds[d].update({n: W.groups[g] for n, g in pos.items()}, **{n: W.groups[g] for n, g in kwp.items()})
                    ref = dict(pos)
                    ref.update(kwp)  # dict semantics: positional mapping first, keywords afterwards and winning
                    stats.inc("probe.update_with_mapping_and_keywords")
                else:
                    ref = {}
                    for n, g in pairs:
                        ref[n] = g
                    dd = {n: W.groups[g] for n, g in ref.items()}
                    if op["kw"]:
                        W.ds[d].update(**dd)
                    else:
                        W.ds[d].update(dd)
                for n, gi in ref.items():
                    W.mds[d][n] = gi
                n_change += 1
            elif k == "ds_clear":
                d = op["d"]
                W.ds[d].clear()
                W.mds[d].clear()
                W.mmeta[d].clear()
                n_change += 1
            elif k == "ds_copy":
                d, t = op["d"], op["to"]
                new = W.ds[d].copy()
                if new is W.ds[d] or not isinstance(new, osy.Dataset):
                    V(step, op, "copy", {"same_object": new is W.ds[d]})
                if d != t:
                    W.ds[t] = new
                    W.mds[t] = dict(W.mds[d])
                    W.mmeta[t] = dict(W.mmeta[d])
                else:
                    W.ds[t] = new
                n_change += 1
            else:
                raise HarnessError(f"unknown op {k}")
        except HarnessError:
            raise
        except Exception as e:
            V(step, op, "exception", {"error": f"{type(e).__name__}: {e}"[:300]})
        if viol:
            break
        # ---- invariants after every step: the containers equal the model, as dicts
        # every stored item carries (one of) the key(s) it is stored under -- also after an insertion elsewhere was rejected
        for g in range(NG):
            for kk, (o, v) in W.mgroups[g].items():
                ok_names = allowed.get(id(o))
                if not viol and ok_names is not None and o.name not in ok_names:
                    V(step, op, "rename", {"group": g, "key": kk, "name": o.name, "last_inserted_under": sorted(ok_names)})
        for g in range(NG):
            G, m = W.groups[g], W.mgroups[g]
            keys = list(G.keys())
            if keys != list(m) or list(iter(G)) != keys or len(G) != len(m):
                V(step, op, "order", {"group": g, "keys": keys, "model": list(m)})
                break
            if [kk for kk, _ in G.items()] != keys or len(list(G.values())) != len(keys):
                V(step, op, "order", {"group": g, "items_disagree": True})
                break
            for kk in KEYS:
                if (kk in G) != (kk in m):
                    V(step, op, "membership", {"group": g, "key": kk})
            for kk, (o, v) in m.items():
                if G[kk] is not o:
                    V(step, op, "identity", {"group": g, "key": kk})
                    break
                want = [np.array(c, dtype=float) for c in v["vals"]]
                got = raw(o)
                if len(want) != len(got) or any(not np.array_equal(a, b, equal_nan=True) for a, b in zip(want, got)):
                    V(step, op, "values", {"group": g, "key": kk})
                    break
        for d in range(ND):
            D, m = W.ds[d], W.mds[d]
            if list(D.keys()) != list(m) or len(D) != len(m) or list(iter(D)) != list(m):
                V(step, op, "order", {"dataset": d, "keys": list(D.keys()), "model": list(m)})
                break
            for n, gi in m.items():
                wobj = gi[1] if isinstance(gi, tuple) else W.groups[gi]
                if D[n] is not wobj:
                    V(step, op, "identity", {"dataset": d, "name": n})
            if dict(D.meta) != W.mmeta[d]:
                V(step, op, "meta", {"dataset": d, "meta": repr(D.meta)[:100]})
    res["signature"] = core.digest(case["ops"])[:20]
    res["nontrivial"] = bool((n_reject > 0 or n_eq > 0) and n_change >= 3)
    return res


# --------------------------------------------------------------------------


def measure(case):
    return (len(case["ops"]), len(core.dumps(case["ops"])))


def reductions(case, viol):
    yield from list_reductions(case, "ops")
    # simplify update ops to single items
    for i, op in enumerate(case["ops"]):
        if op["op"] == "update" and len(op["items"]) > 1:
            for j in range(len(op["items"])):
                c = dict(case)
                c["ops"] = list(case["ops"])
                c["ops"][i] = dict(op, items=op["items"][:j] + op["items"][j + 1:])
                yield c
