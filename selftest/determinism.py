"""Determinism self-test: for every check, a sample of seeds is executed in
fresh interpreters under PYTHONHASHSEED=0 / 1 worker and under another
PYTHONHASHSEED / 8 workers (twice); the per-run event-log digests (case,
every scheduling decision, violations, signature) must be identical.

  ./check selftest-determinism [C05 ...] [--runs N]
"""
import json
import os
import subprocess
import sys
import tempfile

VERIF = os.path.dirname(os.path.dirname(os.path.abspath(__file__)))
ALL = ["C01", "C03", "C04", "C05", "C06", "C11", "C12", "C13", "C14", "C15", "C17", "C19", "C20"]


def one(prop, runs, hashseed, jobs, tmp, tag):
    env = dict(os.environ)
    env["PYTHONHASHSEED"] = str(hashseed)
    env["VERIF_NO_REEXEC"] = "1"
    env["VERIF_DIGESTS"] = os.path.join(tmp, f"{prop}-{tag}.json")
    env["VERIF_EVIDENCE_DIR"] = os.path.join(tmp, "ev")
    env["VERIF_REPLAY_DIR"] = os.path.join(tmp, "rp")
    env.pop("HOME", None)
    p = subprocess.run([sys.executable, os.path.join(VERIF, "check"), prop, "--runs", str(runs), "--jobs", str(jobs)],
                       capture_output=True, text=True, env=env, timeout=3600)
    if p.returncode not in (0, 1):
        return None, p.stdout[-500:] + p.stderr[-500:]
    return json.load(open(env["VERIF_DIGESTS"])), ""


def main(a):
    props = [x for x in a.rest if x.startswith("C")] or ALL
    runs = a.runs or 48
    bad = 0
    with tempfile.TemporaryDirectory(prefix="verif-det-") as tmp:
        for prop in props:
            ref, msg = one(prop, runs, 0, 1, tmp, "a")
            if ref is None:
                print(f"  {prop}: harness error in reference run: {msg}")
                bad += 1
                continue
            ok = True
            for tag, hs, jobs in (("b", 98765, 8), ("c", 4242, 8), ("d", 0, 3)):
                got, msg = one(prop, runs, hs, jobs, tmp, tag)
                if got != ref:
                    ok = False
                    diff = len(set(ref) ^ set(got or []))
                    print(f"  {prop}: DIVERGENCE between (hashseed 0, 1 worker) and (hashseed {hs}, {jobs} workers): {diff} run digests differ {msg}")
            print(f"  {prop}: {'deterministic' if ok else 'NOT deterministic'} over {len(ref)} runs x 4 configurations", flush=True)
            bad += 0 if ok else 1
    return 0 if bad == 0 else 2
