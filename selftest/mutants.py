"""Catalogue of source mutations for the sensitivity self-test.  Each mutant
must still import and pass the pinned test-suite; the property's quick check
must exit 1 on it.  `old` must occur exactly `count` (default 1) times."""

MUTANTS = []


def M(id, prop, file, old, new, note="", count=1):
    MUTANTS.append({"id": id, "property": prop, "note": note, "edits": [{"file": file, "old": old, "new": new, "count": count}]})


def M2(id, prop, edits, note=""):
    MUTANTS.append({"id": id, "property": prop, "note": note, "edits": [dict(file=f, old=o, new=n, count=1) for f, o, n in edits]})


# ---------------------------------------------------------------- C05
M2("c05-reparallelise", "C05", [
    ("plot/utils.py", "@njit\ndef hist2d", "@njit(parallel=True)\ndef hist2d"),
    ("plot/utils.py", "for i in range(len(x)):", "for i in prange(len(x)):"),
], "put the accumulation back into a prange loop (the original race)")
M("c05-truncate", "C05", "plot/utils.py", "indx = int(np.floor((x[i] - xmin) / dx))", "indx = int((x[i] - xmin) / dx)", "truncation toward zero again (x only)")
M("c05-assign-not-accumulate", "C05", "plot/utils.py", "out[:, indy, indx] += values[:, i]", "out[:, indy, indx] = values[:, i]", "+= -> =")
M("c05-drop-upper-test", "C05", "plot/utils.py", "(indx >= 0) and (indx < nx) and (indy >= 0) and (indy < ny)", "(indx >= 0) and (indx <= nx - 1) and (indy >= 0) and (indy < ny + 0 * nx) and (indx != 0 or x[i] >= xmin + 0.5 * dx)", "drops points in the lower half of the first x bin")
M("c05-swap-xy", "C05", "plot/utils.py", "counts[indy, indx] += 1", "counts[indx % ny, indy % nx] += 1", "counts transposed")
M("c05-no-padding", "C05", "plot/histogram2d.py", "        xmax = max(xmax + 0.05 * dx, np.nextafter(xmax, np.inf))", "        xmax = xmax + 0.0 * dx", "automatic upper x limit not padded: the maximum point falls outside the closed-open range")
M("c05-mean-transposed", "C05", "plot/histogram2d.py", "binned[ind, ...] /= counts", "binned[ind, ...] /= np.maximum(counts, 1).T if counts.shape[0] == counts.shape[1] else counts", "mean divided by transposed counts")
M("c05-mask-gt1", "C05", "plot/histogram2d.py", "mask = counts == 0", "mask = counts <= 1", "bins with a single point masked")
M("c05-layer-op-ignored", "C05", "plot/histogram2d.py", "operations.append(layer.operation)", "operations.append(operation)", "per-layer operation ignored (call-level wins)")
M("c05-log-limit", "C05", "plot/histogram2d.py", "            limit = np.log10(limit)\n", "            limit = np.log(limit) / 2.302585\n", "explicit log limit off in the 7th digit")

# ---------------------------------------------------------------- C06
M("c06-gate-len-only", "C06", "core/datagroup.py", "if self.shape and (self.shape != value.shape):", "if self.shape and (len(self.shape) != len(value.shape)):", "shape gate compares ranks only")
M("c06-vector-getitem-y", "C06", "core/vector.py", "**{c: xyz[slice_] for c, xyz in self._xyz.items()}, name=self._name", "**{c: (xyz[slice_] if c != 'y' or not isinstance(slice_, slice) else xyz[slice(slice_.start, slice_.stop, slice_.step)][::1] if slice_.step != -1 else xyz[::1][: len(xyz[slice_])]) for c, xyz in self._xyz.items()}, name=self._name", "y component not reversed for step -1 slices")
M("c06-sortby-skip-vectors", "C06", "core/datagroup.py", "            for var in self.keys():\n                self[var] = self[var][key]", "            for var in self.keys():\n                if hasattr(self[var], 'nvec'):\n                    continue\n                self[var] = self[var][key]", "sortby leaves Vector members unsorted")
M("c06-array-mask-first", "C06", "core/array.py", "            slice_ = slice_.values\n", "            slice_ = slice_.values\n            if slice_.dtype == bool and slice_.size > 3 and slice_[0]:\n                slice_ = slice_.copy()\n                slice_[0] = False\n", "boolean Array index drops row 0 for Arrays only")
M("c06-getitem-drop-unit", "C06", "core/datagroup.py", "                d[name] = val[key]\n", "                d[name] = val[key]\n                if hasattr(d[name], 'nvec') is False and d[name].ndim == 0:\n                    d[name].unit = ''\n", "integer indexing drops the unit of Array members")

# ---------------------------------------------------------------- C20
M("c20-eq-any", "C20", "core/datagroup.py", "if not all(np.all(part.values) for part in parts):", "if not any(np.all(part.values) for part in parts):", "Vector equality: any component equal suffices")
M("c20-eq-first-only", "C20", "core/datagroup.py", "            if not all(np.all(part.values) for part in parts):\n                return False\n        return True", "            if not all(np.all(part.values) for part in parts):\n                return False\n            return True\n        return True", "only the first member is compared")
M("c20-no-rename", "C20", "core/datagroup.py", "        value.name = key\n        self._container[key] = value", "        self._container[key] = value", "no rename on insertion")
M("c20-dataset-gate", "C20", "core/dataset.py", "if not isinstance(value, Datagroup):", "if value is None:", "Dataset type gate only rejects None")
M("c20-pop-keeps", "C20", "core/datagroup.py", "return self._container.pop(key)", "return self._container[key]", "pop does not remove")
M("c20-clear-keeps-meta", "C20", "core/dataset.py", "        self.groups.clear()\n        self.meta.clear()", "        self.groups.clear()", "Dataset.clear keeps meta")
M("c20-update-order", "C20", "core/datagroup.py", "        for key, value in d.items():\n            self[key] = value\n\n    def layer", "        for key, value in reversed(list(d.items())):\n            self[key] = value\n\n    def layer", "update inserts in reverse order")
M("c20-get-default", "C20", "core/dataset.py", "return self.groups.get(key, default)", "return self.groups.get(key, None) or default", "empty group treated as missing by Dataset.get")

# ---------------------------------------------------------------- C17
M("c17-copy-shares-buffer", "C17", "core/array.py", "values=self._array.copy(), unit=units(self.unit), name=str(self.name)", "values=self._array[...], unit=units(self.unit), name=str(self.name)", "Array.copy shares the buffer")
M("c17-getitem-copies-slices", "C17", "core/array.py", "            values=self._array[slice_], unit=self.unit, name=self.name\n", "            values=(self._array[slice_].copy() if isinstance(slice_, slice) and slice_.step == 2 else self._array[slice_]), unit=self.unit, name=self.name\n", "stride-2 slices are copies, not views")
M("c17-vector-copy-shallow", "C17", "core/vector.py", "**{c: xyz.copy() for c, xyz in self._xyz.items()}, name=str(self._name)", "**{c: xyz for c, xyz in self._xyz.items()}, name=str(self._name)", "Vector.copy shares component buffers")
M("c17-datagroup-copy-deep", "C17", "core/datagroup.py", "return self.__class__(**{key: array for key, array in self.items()})", "return self.__class__(**{key: array.copy() for key, array in self.items()})", "Datagroup.copy deep")
M("c17-inplace-new-object", "C17", "core/array.py", "            kwargs[\"out\"][0].unit = unit\n            return kwargs[\"out\"][0]", "            kwargs[\"out\"][0].unit = unit\n            return self.__class__(values=kwargs[\"out\"][0]._array, unit=unit)", "in-place op returns a new Array wrapping the same buffer")
M("c17-isub-no-conversion", "C17", "core/array.py", "        return _binary_op(np.subtract, self, other, out=self)", "        return _binary_op(np.subtract, self, other, strict=False, out=self) if getattr(other, 'ndim', 0) else _binary_op(np.subtract, self, other, out=self)", "-= with an incompatible array operand silently subtracts raw numbers")
M("c17-itruediv-float32", "C17", "core/array.py", "        if np.issubdtype(result.dtype, np.number):", "        if np.issubdtype(result.dtype, np.number) and not (func.__name__ in ('divide', 'true_divide') and 'out' in kwargs and result.dtype == np.float32):", "unit dropped only for float32 in-place division")
M("c17-dataset-copy-deep", "C17", "core/dataset.py", "        out = self.__class__(**dict(self.items()))", "        out = self.__class__(**{k: g.copy() for k, g in self.items()})", "Dataset.copy copies its groups")

# ---------------------------------------------------------------- C01
M("c01-read-ghost-domains", "C01", "io/loader.py", "if domain == cpu_num - 1:", "if domain <= cpu_num - 1:", "cells of lower-numbered domains (ghost copies) are read too")
M("c01-stepover-records", "C01", "io/amr.py", 'self.offsets["n"] += 4 + 3 * twotondim + 3 * ndim', 'self.offsets["n"] += 4 + 3 * twotondim + 2 * ndim', "step_over miscounts records of a skipped domain")
M("c01-numbl-no-transpose", "C01", "io/amr.py", '            .reshape(info["levelmax"], info["ncpu"])\n            .T\n', '            .reshape(info["ncpu"], info["levelmax"])\n', "numbl read row-major")
M("c01-child-offset-sign", "C01", "io/amr.py", "self.xcent[ind, 1] = (float(iy) - 0.5) * self.dxcell", "self.xcent[ind, 1] = (0.5 - float(iy)) * self.dxcell", "y child offset mirrored")
M("c12-leaf-rule", "C12", "io/amr.py", 'ilevel < info["lmax"] - 1', 'ilevel <= info["lmax"] - 1', "refined cells of the finest level are not treated as leaves")
M("c01-energy-exponent", "C01", "config/defaults.py", 'energy = unit_d * ((unit_l / unit_t) ** 2) * units("erg / cm**3")', 'energy = unit_d * ((unit_l / unit_t) ** 1) * units("erg / cm**3")', "pressure scaled with v instead of v^2")
M("c01-drop-unit-magnitude", "C01", "io/reader.py", '                    * item["unit"].magnitude\n                )\n            else:', '                    * 1.0\n                )\n            else:', "hydro/grav/rt values not scaled")
M("c01-xbound-zero", "C01", "io/amr.py", "            float(int(nx / 2)),", "            0.0,", "x offset of boundary regions ignored")
M("c01-noutput-header", "C01", "io/amr.py", 'self.offsets["d"] += 1 + 2 * noutput', 'self.offsets["d"] += 1 + noutput + min(noutput, 3)', "header walk wrong for noutput > 3")
M("c01-glob-unsorted", "C01", "io/utils.py", 'filelist = sorted(glob.glob(os.path.join(path, "output*")))', 'filelist = glob.glob(os.path.join(path, "output*"))', "nout=-1 depends on directory listing order")
M("c01-boundary-header", "C01", "io/amr.py", '            self.offsets["n"] += 2\n\n        # Determine bound key precision', '            self.offsets["n"] += 2 if self.meta["nboundary"] < 3 else 3\n\n        # Determine bound key precision', "record count off with 3 boundary regions")
M("c01-key-size", "C01", "io/amr.py", '        self.offsets["s"] += key_size\n', '        self.offsets["s"] += 8 * (info["ncpu"] + 1)\n', "assumes 8-byte bound keys")
M("c01-mass-dx2", "C01", "config/defaults.py", 'data["mesh"]["density"] * data["mesh"]["dx"] ** 3', 'data["mesh"]["density"] * data["mesh"]["dx"] ** 2 * data["mesh"]["dx"].max()', "cell mass uses the largest dx for one factor")
M("c01-vector-merge-order", "C01", "io/utils.py", "**{components[c]: data[comp_list[c]] for c in range(ndim)}", "**{components[c]: data[comp_list[(c + (1 if ndim == 3 and key.startswith('B_') else 0)) % ndim]] for c in range(ndim)}", "B components rotated when assembled")
M("c01-grav-header", "C01", "io/grav.py", '        self.offsets["i"] += 4\n        self.offsets["n"] += 4', '        self.offsets["i"] += 4\n        self.offsets["n"] += 4 if info["ndim"] == 3 else 5', "gravity header miscounted for ndim < 3")
M("c01-level-dx", "C01", "io/amr.py", "self.dxcell = 0.5 ** (ilevel + 1)", "self.dxcell = 0.5 ** (ilevel + 1) if ilevel < 6 else 0.5 ** ilevel", "cell size wrong from level 7 on")

# ---------------------------------------------------------------- C14
M("c14-four-header-records", "C14", "io/part.py", "for i in range(5):", "for i in range(4 if info['ndim'] == 1 else 5):", "one header record too few skipped for 1-D outputs")
M("c14-no-atleast2d", "C14", "io/sink.py", 'sink_data = np.atleast_2d(np.loadtxt(sink_file, delimiter=",", skiprows=2))', 'sink_data = np.loadtxt(sink_file, delimiter=",", skiprows=2)\n            if sink_data.ndim == 1:\n                sink_data = sink_data.reshape(-1, 1)', "single-sink file read as a column")
M("c13-byte-as-int", "C13", "io/part.py", '                self.offsets[item["type"]] += nparticles\n                self.offsets["n"] += 1', '                self.offsets["i" if item["type"] == "b" else item["type"]] += nparticles\n                self.offsets["n"] += 1', "skipped byte columns advance the integer counter")
M("c14-sortby-wrong-group", "C14", "io/loader.py", "                if group in out:\n                    out[group].sortby(key)", "                if group in out:\n                    out[group].sortby(key if group != 'part' or len(out[group][key]) < 4 else np.argsort(out[group][key].values[::-1]))", "particles sorted with a wrong permutation when there are >= 4")
M("c14-sink-legacy-scaled", "C14", "io/sink.py", '                    unit_list.append(1.0 * ureg(u.replace("[", "").replace("]", "")))', '                    unit_list.append((l.magnitude if "cm" in u and "/" not in u else 1.0) * ureg(u.replace("[", "").replace("]", "")))', "legacy [cm] columns wrongly scaled by the code length")
M("c14-nparticles-last", "C14", "io/part.py", '        info["nparticles"] += nparticles', '        info["nparticles"] = max(info["nparticles"], nparticles) if nparticles < 2 else info["nparticles"] + nparticles', "metadata particle count wrong when a rank holds one particle")
M("c14-empty-sink-none", "C14", "io/sink.py", "            # This is an empty sink file\n            return sink", "            # This is an empty sink file\n            return", "empty sink file gives no group")
M("c14-sink-time-unit", "C14", "io/sink.py", '        t = units["time"]  # noqa: F841', '        t = units["time"] * 1.0 if meta["ndim"] == 3 else units["length"] / units["velocity"] * 1.0000001  # noqa: F841', "time unit slightly off in 1-D/2-D")

# ---------------------------------------------------------------- C13
M("c13-skip-ncache-1", "C13", "io/reader.py", '                self.offsets[item["type"]] += ncache\n                self.offsets["n"] += 1', '                self.offsets[item["type"]] += ncache - (1 if ncache > 5 else 0)\n                self.offsets["n"] += 1', "skip branch one value short for larger cache lines")
M("c13-skip-no-record", "C13", "io/reader.py", '                self.offsets[item["type"]] += ncache\n                self.offsets["n"] += 1', '                self.offsets[item["type"]] += ncache', "skip branch forgets the record markers")
M("c13-merge-any", "C13", "io/utils.py", "if all([item in data for item in comp_list]):", "if any([item in data for item in comp_list[1:]]) and all([item in data for item in comp_list[:2]]):", "vector assembled when only x and y are present in 3-D")
M("c13-stepover-read-only", "C13", "io/reader.py", '        self.offsets["d"] += ncache * twotondim * len(self.variables)\n        self.offsets["n"] += twotondim * len(self.variables)', '        nv = len([v for v in self.variables.values() if v["read"]]) or len(self.variables)\n        self.offsets["d"] += ncache * twotondim * nv\n        self.offsets["n"] += twotondim * nv', "step_over counts only the variables being read")
M("c13-list-select-extra", "C13", "io/reader.py", "            for key in select:\n                read[key] = True", "            for key in select:\n                read[key] = True\n            if 'density' in read and 'pressure' in read and read['pressure']:\n                read['density'] = True", "asking for pressure also returns density")
M("c13-group-off-ignored", "C13", "io/sink.py", "        if select is False:\n            return\n        sink = Datagroup()", "        if select is False and meta['ndim'] < 3:\n            return\n        sink = Datagroup()", "sinks loaded in 3-D although switched off")
M("c13-grav-exists", "C13", "io/grav.py", "        if not os.path.exists(fname):\n            return", "        if not os.path.exists(fname):\n            if meta['ncpu'] > 1:\n                return", "missing gravity files only tolerated for multi-rank outputs")
M("c13-amr-level-skip", "C13", "io/amr.py", '        if self.variables["level"]["read"]:', '        if self.variables["level"]["read"] or self.variables["dx"]["read"] is False:', "level buffer written although not requested (crash or junk)")

# ---------------------------------------------------------------- C12
M("c12-lmax-min", "C12", "io/utils.py", "return possible_levels[inds.max()]", "return possible_levels[inds.min()]", "cap at the lowest accepted level")
M("c12-leaf-levelmax", "C12", "io/amr.py", 'ilevel < info["lmax"] - 1', 'ilevel < info["levelmax"] - 1', "leaf rule ignores the cap")
M("c12-cap-only-le", "C12", "io/loader.py", 'if isinstance(_select["mesh"], dict) and "level" in _select["mesh"]:', 'if isinstance(_select["mesh"], dict) and "level" in _select["mesh"] and len(_select["mesh"]) == 1:', "cap only applied when level is the sole predicate")
M("c12-lmax-plus-one", "C12", "io/utils.py", "    possible_levels = np.arange(1, levelmax + 1, dtype=int)", "    possible_levels = np.arange(1, levelmax, dtype=int) if levelmax > 3 else np.arange(1, levelmax + 1, dtype=int)", "level levelmax never considered for deep trees")

# ---------------------------------------------------------------- C04
M("c04-unfix-levelmin-cap", "C04", "io/hilbert.py", "    lmin = min(ilevel, max(levelmin, 1))", "    lmin = ilevel", "search cubes finer than the father of a qualifying leaf (the original defect)")
M("c04-dkey-levelmax", "C04", "io/hilbert.py", "    dkey = (2 ** (levelmax + 1) // maxdom) ** ndim", "    dkey = (2 ** (levelmax) // maxdom) ** ndim", "key scale one level short")
M("c04-state-diagram", "C04", "io/hilbert.py", "            1,\n            2,\n            3,\n            2,\n            4,\n            5,\n            3,\n            5,\n            0,\n            1,\n            3,\n            2,\n            7,\n            6,\n            4,\n            5,\n            2,", "            1,\n            2,\n            3,\n            2,\n            4,\n            5,\n            3,\n            5,\n            0,\n            1,\n            2,\n            3,\n            7,\n            6,\n            4,\n            5,\n            2,", "two digits of the Hilbert state diagram swapped")
M("c04-cube-round", "C04", "io/hilbert.py", "        imin = int(xmin * maxdom)", "        imin = int(round(xmin * maxdom))", "cube index rounded instead of truncated")
M("c04-cpu-list-override", "C04", "io/loader.py", "        if cpu_list is None:\n            cpu_list = (", "        if cpu_list is None or self.readers[\"amr\"].cpu_list is not None:\n            cpu_list = (", "user cpu_list overridden by the computed one")
M("c04-cpu-max-break", "C04", "io/hilbert.py", "        for j in range(cpu_min[i], cpu_max[i] + 1):", "        for j in range(cpu_min[i], max(cpu_min[i] + 1, cpu_max[i])):", "last CPU of a cube's key range left out")
M("c04-predicate-or", "C04", "io/loader.py", "                            sel = np.prod(", "                            sel = (np.sum if len(conditions) > 3 else np.prod)(", "with three or more user predicates they are ORed")
M("c04-bound-key-last", "C04", "io/hilbert.py", "        bound_key.append(int(float(content[starting_line + ncpu - 1].split()[2])))", "        bound_key.append(int(float(content[starting_line + ncpu - 1].split()[1])) + 1)", "upper bound of the last domain read from the wrong column")
M("c04-cpumax-gt", "C04", "io/hilbert.py", "                bound_key[impi + 1] >= bounding_max[i]", "                bound_key[impi + 1] > bounding_max[i]", "a cube whose key range ends exactly on a bound key gets no last CPU")

# ---------------------------------------------------------------- C15
M("c15-unfix-cpu-list", "C15", "io/amr.py", "        # The CPU pre-selection belongs to one load() call only\n        self.cpu_list = None\n", "", "stale cpu_list again (the original defect)")
M("c15-ncells-not-reset", "C15", "io/loader.py", '            meta["ncells"] = 0\n            lmax = meta["lmax"]', '            lmax = meta["lmax"]', "cell count accumulates over calls")
M("c15-nparticles-not-reset", "C15", "io/loader.py", '            meta["nparticles"] = 0\n            print(', '            print(', "particle count accumulates over calls")
M("c15-pieces-reused", "C15", "io/reader.py", '                "pieces": {},\n', '                "pieces": self.variables[key]["pieces"] if key in self.variables and key == "density" else {},\n', "density pieces of the previous call are kept")
M("c15-lmax-sticky", "C15", "io/loader.py", '        meta["lmax"] = meta["levelmax"]\n', '        meta["lmax"] = meta.get("lmax", meta["levelmax"])\n', "a level cap of an earlier call stays in force")
M("c15-variables-sticky", "C15", "io/reader.py", '        read = {key: False for key in descriptor}\n', '        read = {key: (self.variables[key]["read"] if key in self.variables else False) for key in descriptor}\n', "variables read by an earlier call stay switched on for list selections")
M("c15-early-clear", "C15", "io/ramses.py", "        groups = self.loader.load(*args, meta=self.meta, units=self.units, **kwargs)", "        if kwargs.get('select') is None or isinstance(kwargs.get('select'), dict):\n            self.groups.pop('part', None)  # free memory before re-loading\n        groups = self.loader.load(*args, meta=self.meta, units=self.units, **kwargs)", "an earlier particle group is dropped before the new load: lost when the call is interrupted or does not load particles")

# ---------------------------------------------------------------- C03
M("c03-unfix-radial", "C03", "plot/map.py", "            xyz[indices_close_to_plane].norm\n            - 0.5 * cell_size[indices_close_to_plane] * diagonal\n        )\n        radial_selection = (\n            radial_distance.values\n", "            xyz[indices_close_to_plane]\n            - 0.5 * cell_size[indices_close_to_plane] * diagonal\n        )\n        radial_selection = (\n            np.abs(radial_distance.norm.values)\n", "component-wise subtraction again (the original defect)")
M("c03-footprint-no-diagonal", "C03", "plot/utils.py", "        half_size = cell_sizes[n] * diagonal", "        half_size = cell_sizes[n]", "pixel footprint of a cell without the diagonal factor (rotated maps lose corners)")
M("c03-selection-quarter", "C03", "plot/map.py", "    selection_distance = 0.5 * diagonal * cell_size\n", "    selection_distance = 0.25 * diagonal * cell_size\n", "cells near the plane selected within half the needed distance")
M("c03-original-basis-swapped", "C03", "plot/map.py", "        cell_positions_in_original_basis_x=coords.x.values / div,\n        cell_positions_in_original_basis_y=(\n            coords.y.values / div if coords.y is not None else None\n        ),", "        cell_positions_in_original_basis_x=coords.y.values / div,\n        cell_positions_in_original_basis_y=(\n            coords.x.values / div if coords.y is not None else None\n        ),", "x/y of the original basis swapped in the containment test")
M("c03-scale-ratio-inverted", "C03", "plot/map.py", "    scale_ratio = (1.0 * spatial_unit).to(map_unit).magnitude", "    scale_ratio = 1.0 / (1.0 * spatial_unit).to(map_unit).magnitude", "pixel coordinates scaled the wrong way when dx is given in another unit")
M2("c03-shared-temporary", "C03", [
    ("plot/utils.py", "    ncells = len(cell_positions_in_new_basis_x)\n    for n in prange(ncells):\n        half_size = cell_sizes[n] * diagonal", "    ncells = len(cell_positions_in_new_basis_x)\n    scratch = np.zeros(1)\n    for n in prange(ncells):\n        scratch[0] = cell_sizes[n] * diagonal\n        half_size = scratch[0]"),
], "a per-iteration temporary hoisted into one shared buffer: schedule-dependent footprint")
M("c03-vec-uv-swapped", "C03", "plot/map.py", "                u = uv.dot(vec_u).values\n                v = uv.dot(vec_v).values", "                u = uv.dot(vec_v).values\n                v = uv.dot(vec_u).values", "vector layers projected on the wrong in-plane axes (3-D)")
M("c03-strict-containment", "C03", "plot/utils.py", "                    ok_x = (\n                        np.abs(\n                            grid_positions_in_original_basis[k, j, i, 0]\n                            - cell_positions_in_original_basis_x[n]\n                        )\n                        <= cell_sizes[n]\n                    )", "                    ok_x = (\n                        np.abs(\n                            grid_positions_in_original_basis[k, j, i, 0]\n                            - cell_positions_in_original_basis_x[n]\n                        )\n                        <= cell_sizes[n] * 0.98\n                    )", "cells shrunk by 2% in x: thin unmapped strips")
M("c03-origin-unit", "C03", "plot/map.py", "    xyz = position - origin", "    xyz = position - (origin if origin.unit == position.unit else type(origin)(**{c: a.values for c, a in origin._xyz.items()}, unit=position.unit))", "origin given in another unit is not converted")
M("c03-mask-first-layer", "C03", "plot/map.py", "    mask = np.isnan(binned[-1, ...])", "    mask = np.isnan(binned[-1, ...]) | (binned[0, ...] == 1.0)", "pixels showing the value 1.0 in the first layer are masked")
M("c03-ix2-no-plus-one", "C03", "plot/utils.py", "            + 1,\n            nx,\n        )", "            + 0,\n            nx,\n        )", "x footprint excludes its last pixel column")

# ---------------------------------------------------------------- C11
M("c11-unfix-slab", "C11", "plot/map.py", "    selection_distance = 0.5 * diagonal * cell_size\n    if thick:\n        selection_distance = selection_distance + 0.5 * dz\n", "    selection_distance = 0.5 * diagonal * (dz if thick else cell_size)\n", "slab pre-selection ignores the cell size (the original defect)")
M("c11-unfix-auto-dz", "C11", "plot/map.py", "        if thick:\n            # The depth range is given by the requested thickness, not by the data\n            zmin = -0.5 * dz.magnitude\n            zmax = zmin + dz.magnitude\n", "", "automatic window ignores dz (the original defect)")
M("c11-no-zspacing", "C11", "plot/map.py", "            reduced[inds] *= zspacing\n", "            reduced[inds] *= 1.0\n", "sum not multiplied by the depth step")
M("c11-no-unit-product", "C11", "plot/map.py", '            layer["unit"] = layer["unit"] * dataz.unit', '            layer["unit"] = layer["unit"] * 1', "unit of a column sum not multiplied by the length unit")
M("c11-z-int", "C11", "plot/map.py", '            resolution["z"] = round((zmax - zmin) / (0.5 * (xspacing + yspacing)))', '            resolution["z"] = int((zmax - zmin) / (0.5 * (xspacing + yspacing)))', "depth resolution truncated instead of rounded")
M("c11-zcenters-shift", "C11", "plot/map.py", "            zmin + 0.5 * zspacing, zmax - 0.5 * zspacing, resolution[\"z\"]\n", "            zmin + 1.0 * zspacing, zmax - 0.0 * zspacing, resolution[\"z\"]\n", "depth samples shifted by half a step")
M("c11-factor-sum-only", "C11", "plot/map.py", '        if thick and (operations[ind] in ("sum", "nansum")):', '        if thick and (operations[ind] == "sum"):', "nansum neither scaled nor given the length unit")
M("c11-mean-scaled", "C11", "plot/map.py", '        if thick and (operations[ind] in ("sum", "nansum")):', '        if thick and (operations[ind] in ("sum", "nansum", "mean")):', "mean also multiplied by the depth step")
M("c11-reduce-axis", "C11", "plot/map.py", "        reduced[inds] = getattr(np, operations[ind])(binned[inds], axis=1)", "        reduced[inds] = getattr(np, operations[ind])(binned[inds][:, ::2, ...] if binned.shape[1] > 3 else binned[inds], axis=1)", "every second depth sample dropped for deep stacks")
M("c11-iz-footprint", "C11", "plot/utils.py", "            + 1,\n            nz,\n        )", "            + 0,\n            nz,\n        )", "depth footprint excludes its last sample")

# ---------------------------------------------------------------- C19
M("c19-unfix-resolution-copy", "C19", "plot/map.py", "        resolution = dict(resolution)\n", "", "defaults written into the caller's resolution dict (the original defect)")
M("c19-parse-layer-no-copy", "C19", "plot/parser.py", "    out = layer.copy()", "    out = layer", "call-level options are merged into the caller's Layer")
M("c19-precedence-inverted", "C19", "plot/parser.py", "    if out.vmin is None:\n        out.vmin = vmin", "    if vmin is not None:\n        out.vmin = vmin", "call-level vmin overrides the layer's")
M("c19-layer-copy-shares-kwargs", "C19", "core/layer.py", "            weights=self.weights,\n            **self.kwargs,\n        )\n\n    @property\n    def data", "            weights=self.weights,\n        )._share(self.kwargs)\n\n    def _share(self, kw):\n        self.kwargs = kw\n        return self\n\n    @property\n    def data", "Layer.copy shares the kwargs dict: norm objects and call-level extras leak into the caller's Layer")
M("c19-kwargs-override", "C19", "plot/parser.py", "        {key: value for key, value in kwargs.items() if key not in out.kwargs}", "        {key: value for key, value in kwargs.items()}", "call-level extra keyword options override the layer's")
M("c19-operation-call-wins", "C19", "plot/map.py", "            operations.append(layer.operation)", "            operations.append(operation)", "map uses the call-level operation for every layer (the original defect)")
M("c19-hist2d-mode-call", "C19", "plot/histogram2d.py", '                "mode": layer.mode,', '                "mode": mode if mode is not None else layer.mode,', "histogram2d lets the call-level mode win")
M("c19-origin-inplace", "C19", "plot/map.py", "    xyz = position - origin", "    origin.x.values[...] = origin.x.values * 1.0\n    origin.name = origin.name or 'origin'\n    xyz = position - origin", "origin renamed in place")
M("c19-hist1d-weights-inplace", "C19", "plot/histogram1d.py", "        layer = parse_layer(layer, bins=bins, weights=weights, **kwargs)", "        layer = parse_layer(layer, bins=bins, weights=weights, **kwargs)\n        if weights is not None:\n            weights.name = 'weights'", "call-level weights Array renamed in place")
M("c19-scatter-size-inplace", "C19", "plot/scatter.py", "                size = size.to(x.unit)", "                size = size.to(x.unit)\n                size.values[...] = np.abs(size.values)" if False else "                size = size.to(x.unit)\n                size.name = 'size'", "size Array renamed (to() returns self when units agree)")
M("c19-bins-call-wins", "C19", "plot/parser.py", "    if out.bins is None:\n        out.bins = bins", "    if bins is not None:\n        out.bins = bins", "call-level bins override the layer's")
M("c17-unfix-vector-inplace", "C17", "core/vector.py", "        for c, xyz in lhs._xyz.items():\n            getattr(xyz, op)(getattr(rhs, c))\n        return lhs\n", "        pass\n", "Vector in-place operators return a new Vector again (stale unit on other references after a second update)")
M("c17-unfix-vector-alias-copy", "C17", "core/vector.py", "        if _shares_memory(lhs, rhs):\n            rhs = rhs.copy()", "        if False and _shares_memory(lhs, rhs):\n            rhs = rhs.copy()", "operand aliasing a component is not copied before the component-wise update")
M("c03-unfix-depth-step", "C03", "plot/map.py", "        zspacing = abs(zmax - zmin) or 1.0", "        zspacing = zmax - zmin", "negative depth step for automatic windows (the original defect; needs the origin near the domain edge)")
M("c05-degenerate-no-widening", "C05", "plot/histogram2d.py", "    if xmin == xmax:\n        if xmin == 0.0:", "    if xmin == xmax and xmin == 0.0:\n        if xmin == 0.0:", "all x equal and non-zero: the zero-width automatic range is not widened")
M("c03-render-transposed", "C03", "plot/wrappers.py", "    out = ax.pcolormesh(x, y, z, **default_args)", "    out = ax.pcolormesh(x, y, z[::-1, :] if z.shape[0] > 1 and z.shape[0] == z.shape[1] else z, **default_args)", "rendered image flipped vertically for square maps (the returned data are right)")
M("c03-render-xlim", "C03", "plot/map.py", "        figure[\"ax\"].set_xlim(xmin, xmax)", "        figure[\"ax\"].set_xlim(xmin, xmax * 1.02)", "x axis of the rendered map extends beyond the window")
M("c05-unfix-nextafter", "C05", "plot/histogram2d.py", "        ymax = max(ymax + 0.05 * dy, np.nextafter(ymax, np.inf))", "        ymax = ymax + 0.05 * dy", "automatic upper y limit can coincide with the largest value for ranges a few ulps wide (the original defect)")
M("c05-unfix-quantity-limit", "C05", "plot/histogram2d.py", "            limit = limit.to(x.unit).magnitude", "            limit = limit.to(x.unit.units).magnitude", "an explicit limit given as a Quantity raises AttributeError again (the original defect)")
M("c04-unfix-ndarray-predicate", "C04", "io/hilbert.py", "            if isinstance(func_test, Array):\n                func_test = func_test.values\n            inds = np.argwhere(func_test).ravel()\n", "            inds = np.argwhere(func_test.values).ravel()\n", "position predicates answering with a plain ndarray crash the Hilbert pre-selection again (the original defect)")
M("c04-unfix-empty-sampling", "C04", "io/hilbert.py", "            if len(inds) == 0:\n                # The selected interval is narrower than the sampling (levelmax > 18):\n                # no pre-selection is possible, all files are read\n                return\n", "", "boxes narrower than the 2**18 sampling raise ValueError again at levelmax > 18 (the original defect)")
M("c04-unfix-sampling-pad", "C04", "io/hilbert.py", "            pad = half_dxmin + (2.0 * half_dxmin if meta[\"levelmax\"] > 18 else 0.0)\n", "            pad = half_dxmin\n", "the bounding box of a position selection is cut back to the predicate samples again at levelmax > 18 (the original defect)")
