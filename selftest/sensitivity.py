"""Sensitivity self-test: each catalogued source mutation is applied to a
scratch copy of /repo (under /dev/shm, removed afterwards); the mutant must
still pass the pinned test-suite and the property's quick check must exit 1.

  ./check selftest-sensitivity [C05 C06 ...] [--jobs N]

Mutants that survive are listed, not hidden (exit 1 if any survives).
"""
import json
import os
import shutil
import subprocess
import sys
import tempfile
import time
from concurrent.futures import ThreadPoolExecutor

VERIF = os.path.dirname(os.path.dirname(os.path.abspath(__file__)))
REPO = os.environ.get("VERIF_REPO", "/repo")


def load_catalogue():
    from selftest.mutants import MUTANTS

    return MUTANTS


def run_one(m, runs_override=None):
    base = "/dev/shm" if os.path.isdir("/dev/shm") else None
    d = tempfile.mkdtemp(prefix="verif-mut-", dir=base)
    out = {"id": m["id"], "property": m["property"], "note": m.get("note", "")}
    try:
        shutil.copytree(os.path.join(REPO, "src"), os.path.join(d, "src"), ignore=shutil.ignore_patterns("__pycache__", "*.egg-info"))
        shutil.copytree(os.path.join(REPO, "test"), os.path.join(d, "test"), ignore=shutil.ignore_patterns("__pycache__"))
        for edit in m["edits"]:
            p = os.path.join(d, "src", "osyris", edit["file"])
            s = open(p).read()
            cnt = s.count(edit["old"])
            if cnt != edit.get("count", 1):
                out["status"] = "stale"
                out["detail"] = f"pattern occurs {cnt}x in {edit['file']} (expected {edit.get('count', 1)}): {edit['old'][:60]!r}"
                return out
            open(p, "w").write(s.replace(edit["old"], edit["new"]))
        env = dict(os.environ)
        env["PYTHONPATH"] = os.path.join(d, "src")
        env["HOME"] = os.path.join(d, "home")
        os.makedirs(env["HOME"])
        env["MPLBACKEND"] = "Agg"
        t0 = time.time()
        p = subprocess.run([sys.executable, "-m", "pytest", "-q", "-p", "no:cacheprovider", "-x", "test"], cwd=d, env=env,
                           capture_output=True, text=True, timeout=900)
        out["tests_pass"] = p.returncode == 0
        out["tests_tail"] = p.stdout.strip().splitlines()[-1:] if p.stdout else []
        env2 = dict(os.environ)
        env2["OSYRIS_SRC"] = os.path.join(d, "src")
        env2["VERIF_REPLAY_DIR"] = os.path.join(d, "replays")
        env2["VERIF_EVIDENCE_DIR"] = os.path.join(d, "evidence")
        env2["VERIF_JOBS"] = os.environ.get("VERIF_MUT_JOBS", "4")
        env2.pop("HOME", None)
        cmd = [sys.executable, os.path.join(VERIF, "check"), m["property"], "--tier", "quick"]
        if runs_override:
            cmd += ["--runs", str(runs_override)]
        t1 = time.time()
        q = subprocess.run(cmd, cwd=VERIF, env=env2, capture_output=True, text=True, timeout=3600)
        out["check_exit"] = q.returncode
        out["check_wall_s"] = round(time.time() - t1, 1)
        lines = [l for l in q.stdout.splitlines() if l.startswith("VIOLATION") or l.startswith("  class=") or l.startswith("HARNESS")]
        out["check_lines"] = [l[:300] for l in lines[:4]]
        if not out["tests_pass"]:
            out["status"] = "invalid-mutant(tests fail)"
        elif q.returncode == 1:
            out["status"] = "killed"
        elif q.returncode == 0:
            out["status"] = "SURVIVED"
        else:
            out["status"] = f"harness-error({q.returncode})"
            out["check_lines"] = (q.stdout + q.stderr).splitlines()[-6:]
        return out
    except subprocess.TimeoutExpired:
        out["status"] = "timeout"
        return out
    finally:
        shutil.rmtree(d, ignore_errors=True)


def main(a):
    want = [x for x in a.rest if x.startswith("C")]
    ids = [x for x in a.rest if not x.startswith("C")]
    muts = [m for m in load_catalogue() if (not want or m["property"] in want) and (not ids or m["id"] in ids)]
    jobs = a.jobs or 4
    print(f"sensitivity: {len(muts)} mutants, {jobs} at a time", flush=True)
    results = []
    with ThreadPoolExecutor(max_workers=jobs) as ex:
        for r in ex.map(lambda m: run_one(m, a.runs), muts):
            results.append(r)
            print(f"  {r['status']:>28}  {r['property']} {r['id']}  {r.get('check_wall_s', '')}s  {'; '.join(r.get('check_lines', [])[:2])[:160]}", flush=True)
    summary = {}
    for r in results:
        summary.setdefault(r["property"], {}).setdefault(r["status"], []).append(r["id"])
    os.makedirs(os.path.join(VERIF, "selftest", "results"), exist_ok=True)
    path = os.path.join(VERIF, "selftest", "results", "sensitivity.json")
    old = {}
    if os.path.exists(path):
        old = {r["id"]: r for r in json.load(open(path))["results"]}
    current = {m["id"] for m in load_catalogue()}
    old = {k: v for k, v in old.items() if k in current}
    for r in results:
        old[r["id"]] = r
    json.dump({"results": sorted(old.values(), key=lambda r: (r["property"], r["id"]))}, open(path, "w"), indent=1)
    print(json.dumps(summary, indent=1))
    bad = [r for r in results if r["status"] not in ("killed",)]
    return 1 if bad else 0
