"""setup self-test: the environment can run the checks (offline, fresh HOME)."""
import importlib


def main(a):
    import numpy, numba, pint, matplotlib  # noqa: F401
    osyris = importlib.import_module("osyris")
    from sim.kseam import kernel

    kernel("osyris.plot.histogram2d", "hist2d")
    kernel("osyris.plot.map", "evaluate_on_grid")
    try:
        from sim import hilbert_ref

        hilbert_ref.validate(4)
    except ImportError:
        pass
    print("setup ok: osyris from", osyris.__file__)
    return 0
