"""Core of the deterministic-simulation framework: seeds, run loop, process
pool, violation handling (shrink -> replay file -> fresh-interpreter replay ->
known-findings match), evidence.  See DESIGN.md section 2.

Nothing in here draws from a PRNG except `rng_for`; nothing reads a clock
except the outer batch loop (to report wall time and to stop *starting* new
work) -- never to decide anything inside a run.
"""
import contextlib
import hashlib
import importlib
import json
import os
import random
import re
import subprocess
import sys
import time
import traceback
from concurrent.futures import ProcessPoolExecutor
import multiprocessing as mp

VERIF = os.path.dirname(os.path.dirname(os.path.abspath(__file__)))
CHECK_VERSION = 1
EXIT_OK, EXIT_VIOLATION, EXIT_HARNESS = 0, 1, 2


class HarnessError(Exception):
    """The machinery (not osyris) failed: never converted into a violation."""


def H(*parts):
    """Stable 64-bit hash of the parts (ints / strs)."""
    h = hashlib.sha256("\x1f".join(str(p) for p in parts).encode()).digest()
    return int.from_bytes(h[:8], "big")


def rng_for(*parts):
    return random.Random(H(*parts))


def digest(obj):
    return hashlib.sha256(
        json.dumps(obj, sort_keys=True, default=_jsonable).encode()
    ).hexdigest()


def _jsonable(o):
    import numpy as np

    if isinstance(o, np.ndarray):
        return o.tolist()
    if isinstance(o, (np.integer,)):
        return int(o)
    if isinstance(o, (np.floating,)):
        return float(o)
    if isinstance(o, (np.bool_,)):
        return bool(o)
    if isinstance(o, (set, frozenset)):
        return sorted(o)
    if isinstance(o, tuple):
        return list(o)
    if isinstance(o, bytes):
        return o.hex()
    return repr(o)


_SCRUB = re.compile(r"verif-(w|home)-[A-Za-z0-9_]+")


def scrub(text):
    """Remove per-run scratch directory names from messages (violation records must replay identically)."""
    return _SCRUB.sub(r"verif-\\1-X", str(text))


def dumps(obj, **kw):
    return json.dumps(obj, sort_keys=True, default=_jsonable, **kw)


# --------------------------------------------------------------------------
# environment


def prepare_environment():
    """Fresh HOME (so osyris re-creates its config from the working tree),
    headless matplotlib, osyris imported from $OSYRIS_SRC (default /repo/src).
    Must be called before osyris is imported."""
    import tempfile

    base = "/dev/shm" if os.path.isdir("/dev/shm") and os.access("/dev/shm", os.W_OK) else None
    home = tempfile.mkdtemp(prefix="verif-home-", dir=base)
    os.environ["HOME"] = home
    os.environ["MPLBACKEND"] = "Agg"
    os.environ["MPLCONFIGDIR"] = os.path.join(home, "mpl")
    os.environ.setdefault("NUMBA_CACHE_DIR", os.path.join(home, "numba"))
    src = os.environ.get("OSYRIS_SRC", "/repo/src")
    if not os.path.isdir(os.path.join(src, "osyris")):
        raise HarnessError(f"OSYRIS_SRC={src} does not contain osyris")
    sys.path.insert(0, src)
    return home


def cleanup_environment(home):
    import shutil

    shutil.rmtree(home, ignore_errors=True)


_SCRATCH = []


def scratch_dir(prefix="verif-w-"):
    import tempfile

    base = "/dev/shm" if os.path.isdir("/dev/shm") and os.access("/dev/shm", os.W_OK) else None
    d = tempfile.mkdtemp(prefix=prefix, dir=base)
    return d


# --------------------------------------------------------------------------
# known findings


def load_known_findings(prop):
    """Lines of /verif/KNOWN_FINDINGS.txt:
    known: property=Cxx match={json} what=<text>
    fixed: property=Cxx <commit> <what failed>
    Only `known:` lines suppress anything."""
    out = []
    path = os.path.join(VERIF, "KNOWN_FINDINGS.txt")
    if not os.path.exists(path):
        return out
    for line in open(path):
        line = line.strip()
        if not line.startswith("known:"):
            continue
        body = line[len("known:"):].strip()
        if not body.startswith(f"property={prop} "):
            continue
        i = body.index("match=") + len("match=")
        dec = json.JSONDecoder()
        match, end = dec.raw_decode(body[i:])
        what = body[i + end:].strip()
        if what.startswith("what="):
            what = what[5:]
        out.append({"match": match, "what": what})
    return out


def match_known(known, key):
    for k in known:
        if all(key.get(a) == b for a, b in k["match"].items()):
            return k
    return None


# --------------------------------------------------------------------------
# aggregation helpers


class Stats:
    """Additive counters + bounded sample lists + hash sets, mergeable."""

    def __init__(self):
        self.c = {}
        self.sets = {}
        self.samples = []

    def inc(self, key, n=1):
        self.c[key] = self.c.get(key, 0) + n

    def add(self, setname, h):
        self.sets.setdefault(setname, set()).add(h)

    def merge(self, other):
        for k, v in other.c.items():
            self.c[k] = self.c.get(k, 0) + v
        for k, v in other.sets.items():
            self.sets.setdefault(k, set()).update(v)
        for s in other.samples:
            if len(self.samples) < 6:
                self.samples.append(s)

    def to_payload(self):
        return {"c": self.c, "sets": {k: sorted(v) for k, v in self.sets.items()}, "samples": self.samples}

    @classmethod
    def from_payload(cls, p):
        s = cls()
        s.c = dict(p["c"])
        s.sets = {k: set(v) for k, v in p["sets"].items()}
        s.samples = list(p["samples"])
        return s


# --------------------------------------------------------------------------
# one run


def run_one(mod, base_seed, r, tier, stats):
    """Generate + execute run r.  Returns list of violation records."""
    seed = H(base_seed, mod.PROPERTY, r)
    rng = random.Random(seed)
    case = mod.generate(rng, tier)
    case["seed"] = seed
    case["run"] = r
    res = safe_execute(mod, case, stats)
    stats.inc("runs")
    sig = res.get("signature")
    if sig is not None:
        stats.add("distinct", sig)
        if res.get("nontrivial"):
            stats.add("distinct_nontrivial", sig)
    if len(stats.samples) < 3 and res.get("nontrivial"):
        stats.samples.append(mod.describe(case) if hasattr(mod, "describe") else case)
    if os.environ.get("VERIF_DIGESTS"):
        # event-log digest of this run (determinism self-test): everything the run decided and observed
        stats.sets.setdefault("__digests__", set()).add(
            f"{r}:" + digest({"case": case, "violations": res.get("violations", []), "signature": res.get("signature"),
                              "decisions": res.get("decisions"), "trace": res.get("trace"), "nontrivial": res.get("nontrivial")}))
    out = []
    for v in res.get("violations", []):
        out.append({"case": case, "violation": v})
    return out


class RunTimeout(BaseException):
    """Raised in the main thread by the wall-budget timer (BaseException: passes through `except Exception`)."""


_BUDGET_ACTIVE = [False]


@contextlib.contextmanager
def wall_budget(seconds):
    """One run may take `seconds` of wall time (normal runs take well under a second); the outermost budget counts."""
    import signal
    import threading

    if seconds <= 0 or _BUDGET_ACTIVE[0] or threading.current_thread() is not threading.main_thread():
        yield
        return

    def on_alarm(signum, frame):
        raise RunTimeout()

    old = signal.signal(signal.SIGALRM, on_alarm)
    _BUDGET_ACTIVE[0] = True
    signal.setitimer(signal.ITIMER_REAL, seconds)
    try:
        yield
    finally:
        signal.setitimer(signal.ITIMER_REAL, 0)
        signal.signal(signal.SIGALRM, old)
        _BUDGET_ACTIVE[0] = False


def run_budget(mod):
    return float(os.environ.get("VERIF_RUN_BUDGET", getattr(mod, "RUN_BUDGET_S", 120)))


def safe_execute(mod, case, stats):
    """As _safe_execute, within the wall budget of one run: a run that does not finish is a violation of class 'hang'
    (reported with its case; not minimised), not a harness failure."""
    budget = run_budget(mod)
    try:
        with wall_budget(budget):
            return _safe_execute(mod, case, stats)
    except RunTimeout:
        return {"violations": [{"class": "hang", "clause": "wall-budget", "key": {"class": "hang"},
                                "detail": {"budget_s": budget, "note": "the run did not finish within its wall budget (ordinary runs take well under a second)"}}],
                "nontrivial": False, "signature": None}


def _safe_execute(mod, case, stats):
    """execute(), with an unexpected exception of the oracle turned into a violation record.

    The oracles are exercised on >10^5 cases of the unchanged tree without raising; when one raises on a changed
    tree the overwhelmingly likely cause is output of a kind the property excludes (NaN grids, ragged results,
    wrong types).  It is reported as class 'oracle-crash' (with the exception and the frames inside /verif and
    osyris), minimised and replayed like any other violation.  HarnessError (explicitly unsupported constructs,
    lost baton, ...) is never converted."""
    try:
        if "sequence" in case:
            # a violation that needs earlier runs in the same process (state kept by the code under test across calls):
            # the earlier cases are executed first, only the last one is judged
            for c in case["sequence"][:-1]:
                try:
                    import copy

                    mod.execute(copy.deepcopy(c), Stats())
                except HarnessError:
                    raise
                except Exception:
                    pass
            return _safe_execute(mod, case["sequence"][-1], stats)
        import copy

        # the case document is the replay: whatever the code under test does to objects it is handed, the document
        # stays as generated
        return mod.execute(copy.deepcopy(case), stats)
    except HarnessError:
        raise
    except (KeyboardInterrupt, SystemExit):
        raise
    except Exception as e:
        tb = traceback.extract_tb(e.__traceback__)
        frames = [f"{os.path.basename(f.filename)}:{f.name}" for f in tb][-6:]
        return {"violations": [{"class": "oracle-crash", "clause": type(e).__name__, "key": {"class": "oracle-crash", "exception": type(e).__name__},
                                "detail": {"error": scrub(f"{type(e).__name__}: {e}")[:300], "frames": frames}}],
                "nontrivial": False, "signature": None}


def _child(conn, args):
    try:
        conn.send(("ok", _worker(args)))
    except BaseException as e:  # noqa: B902
        try:
            conn.send(("err", f"{type(e).__name__}: {e}"[:4000]))
        except Exception:
            pass
    finally:
        conn.close()


def history_of(r, jobs):
    """runs executed before run r by the same worker process (see the plan in run_check)"""
    return list(range(r % jobs, r, jobs))


def regenerate(mod, base_seed, r, tier):
    seed = H(base_seed, mod.PROPERTY, r)
    case = mod.generate(random.Random(seed), tier)
    case["seed"] = seed
    case["run"] = r
    return case


def _worker(args):
    modname, base_seed, indices, tier = args
    import faulthandler

    faulthandler.enable()
    mod = importlib.import_module(modname)
    stats = Stats()
    viols = []
    per_class = {}
    t0 = time.time()
    for r in indices:
        faulthandler.dump_traceback_later(getattr(mod, "RUN_WALL_GUARD", 300), exit=True)
        try:
            vs = run_one(mod, base_seed, r, tier, stats)
        except HarnessError:
            faulthandler.cancel_dump_traceback_later()
            raise
        except Exception as e:
            faulthandler.cancel_dump_traceback_later()
            raise HarnessError(
                f"run {r} (seed {H(base_seed, mod.PROPERTY, r)}) crashed in the harness: "
                + traceback.format_exc()
            ) from e
        faulthandler.cancel_dump_traceback_later()
        hung = any(v["violation"].get("class") == "hang" for v in vs)
        for v in vs:
            k = (v["violation"].get("class"), v["violation"].get("clause"), dumps(v["violation"].get("key", {})))
            per_class[k] = per_class.get(k, 0) + 1
            stats.inc("violating_observations")
            if per_class[k] <= 2:
                viols.append(v)
        if hung:
            # threads of the simulated runtime may still be parked and the library's state is unknown: this worker stops here
            stats.inc("runs_not_executed_after_a_hang", len(indices) - indices.index(r) - 1)
            break
    stats.inc("worker_wall_ms", int((time.time() - t0) * 1000))
    return stats.to_payload(), viols


# --------------------------------------------------------------------------
# batch driver


def run_check(modname, tier, base_seed=None, jobs=None, runs=None):
    mod = importlib.import_module(modname)
    prop = mod.PROPERTY
    if base_seed is None:
        base_seed = int(os.environ.get("VERIF_SEED", mod.DEFAULT_SEED))
    print(f"[{prop}] tier={tier} base_seed={base_seed} osyris_src={os.environ.get('OSYRIS_SRC', '/repo/src')}", flush=True)
    nruns = runs if runs is not None else mod.RUNS[tier]
    if jobs is None:
        jobs = int(os.environ.get("VERIF_JOBS", mod.JOBS.get(tier, 8) if hasattr(mod, "JOBS") else (8 if tier == "quick" else 16)))
    t0 = time.time()
    if hasattr(mod, "prepare"):
        mod.prepare(tier)
    # process p executes runs p, p+jobs, p+2*jobs, ... in this order: every process sees every swarm kind and -- should
    # the code under test keep process-global state -- the history of every run is a pure function of (runs, jobs)
    plan = [list(range(k, nruns, jobs)) for k in range(jobs)]
    plan = [c for c in plan if c]
    stats = Stats()
    viols = []
    if len(plan) <= 1:
        for c in plan:
            p, v = _worker((modname, base_seed, c, tier))
            stats.merge(Stats.from_payload(p))
            viols.extend(v)
    else:
        ctx = mp.get_context("fork")
        procs = []
        for c in plan:
            rd, wr = ctx.Pipe(duplex=False)
            pr = ctx.Process(target=_child, args=(wr, (modname, base_seed, c, tier)))
            pr.start()
            wr.close()
            procs.append((pr, rd))
        guard = getattr(mod, "BATCH_WALL_GUARD", 7200)
        failure = None
        for pr, rd in procs:
            try:
                if failure is None and rd.poll(guard):
                    kind, payload = rd.recv()
                    if kind == "ok":
                        p, v = payload
                        stats.merge(Stats.from_payload(p))
                        viols.extend(v)
                    else:
                        failure = payload
                elif failure is None:
                    failure = "worker timed out"
            except (EOFError, OSError) as e:
                failure = failure or f"worker died: {e!r}"
            finally:
                if failure is not None and pr.is_alive():
                    pr.terminate()
                pr.join(30)
        if failure is not None:
            raise HarnessError(f"worker failed: {failure}")
    extra = {}
    if hasattr(mod, "finalize") and not viols:
        # e.g. the compiled-kernel anchor: runs in the parent, after the pool.  It validates the simulator on a tree that
        # passes; when the pool already found violations (or a run that did not terminate) those are what gets reported
        try:
            with wall_budget(float(os.environ.get("VERIF_ANCHOR_BUDGET", 900))):
                extra = mod.finalize(tier, base_seed, stats, viols) or {}
        except RunTimeout:
            raise HarnessError("the fidelity anchor (finalize) did not terminate within its wall budget")
    wall_runs = time.time() - t0

    # ---- violations: group, shrink, write replay, verify, match known findings
    known = load_known_findings(prop)
    reported = []
    groups = {}
    for v in sorted(viols, key=lambda v: v["case"]["run"]):
        k = (v["violation"].get("class"), v["violation"].get("clause"), dumps(v["violation"].get("key", {})))
        groups.setdefault(k, []).append(v)
    n_viol = n_known = 0
    exit_code = EXIT_OK
    shrink_budget = getattr(mod, "SHRINK_BUDGET_S", 45)
    for k in sorted(groups, key=lambda k: tuple(str(x) for x in k))[: getattr(mod, "MAX_REPORTED_GROUPS", 8)]:
        v = groups[k][0]
        case, viol = v["case"], v["violation"]
        ok, msg, path = False, "", None
        try:
            small_case, small_viol = shrink(mod, case, viol, shrink_budget)
            rec = make_replay(mod, small_case, small_viol, original=case)
            path = write_replay(prop, rec)
            ok, msg = verify_replay(prop, path)
            if not ok and "identical_record=False" in msg:
                # the failure reproduces on its own, but details of the record depended on what the worker process had
                # executed before (state kept by the library across calls): the record of a fresh interpreter is the
                # reference from here on, and must itself be reproducible
                got = probe_replay(prop, {"property": prop, "case": small_case, "violation": {k_: small_viol.get(k_) for k_ in ("class", "clause", "key")}})
                if got is not None:
                    got = dict(got)
                    got.setdefault("key", small_viol.get("key", {}))
                    small_viol = got
                    rec = make_replay(mod, small_case, small_viol, original=case)
                    path = write_replay(prop, rec)
                    ok, msg = verify_replay(prop, path)
        except HarnessError as e:
            msg = str(e)
        except Exception:
            raise HarnessError("shrinker crashed: " + traceback.format_exc())
        if not ok and path is not None and "NOT-REPRODUCED" in msg:
            # behaviour that depends on the interpreter's string-hash seed (iteration order of a set, say) reproduces only
            # under the seed of the worker processes: the replay file then names the seed it needs, and `--replay` uses it
            hs = os.environ.get("PYTHONHASHSEED", "0")
            ok2, _ = verify_replay(prop, path, hashseed=hs)
            if ok2:
                rec = json.load(open(path))
                rec["pythonhashseed"] = hs
                rec["note"] = "reproduces under this PYTHONHASHSEED only: the behaviour depends on hash order"
                with open(path, "w") as f:
                    f.write(dumps(rec))
                ok = True
                print(f"NOTE property={prop} replay={path} depends on the string-hash seed (PYTHONHASHSEED={hs} recorded in the file)", flush=True)
        if not ok:
            # not reproducible on its own: does it need the runs that the same worker process executed before it?
            found = sequence_replay(mod, prop, base_seed, tier, jobs if len(plan) > 1 else 1, case, viol)
            if found is None:
                print(f"HARNESS-ERROR property={prop} replay of {path} did not reproduce (alone or with its process history): {msg[:300]}", flush=True)
                exit_code = EXIT_HARNESS
                continue
            small_case, small_viol, path = found
        kf = match_known(known, small_viol.get("key", {}))
        if kf is not None:
            n_known += 1
            print(f"KNOWN-FINDING: property={prop} {kf['what']} [replay={path}]", flush=True)
        else:
            n_viol += 1
            print(f"VIOLATION property={prop} replay={path}", flush=True)
            print(f"  class={small_viol.get('class')} clause={small_viol.get('clause')} detail={dumps(small_viol.get('detail'))[:600]}", flush=True)
            if exit_code == EXIT_OK:
                exit_code = EXIT_VIOLATION
        reported.append({"key": small_viol.get("key"), "class": small_viol.get("class"), "clause": small_viol.get("clause"), "replay": path, "known": kf is not None})

    if os.environ.get("VERIF_DIGESTS"):
        with open(os.environ["VERIF_DIGESTS"], "w") as f:
            f.write(dumps(sorted(stats.sets.pop("__digests__", set()))))
    wall = time.time() - t0
    write_evidence(mod, tier, base_seed, stats, extra, wall, wall_runs, n_viol, n_known, reported, nruns, jobs)
    print(f"[{prop}] runs={stats.c.get('runs', 0)} distinct_nontrivial={len(stats.sets.get('distinct_nontrivial', ()))} "
          f"violations={n_viol} known_findings={n_known} wall={wall:.1f}s exit={exit_code}", flush=True)
    return exit_code


# --------------------------------------------------------------------------
# shrinking: greedy over module-provided reductions, strictly decreasing measure


def same_failure(v1, v2):
    return (v1.get("class"), v1.get("clause"), dumps(v1.get("key", {}))) == (
        v2.get("class"), v2.get("clause"), dumps(v2.get("key", {})))


def first_matching(mod, case, viol):
    res = safe_execute(mod, case, Stats())
    for v in res.get("violations", []):
        if same_failure(v, viol):
            return v
    return None


def shrink(mod, case, viol, budget_s):
    """Repeatedly try the module's candidate reductions of `case`; accept one
    only if the *same* violation (class, clause, key) persists and the module's
    size measure strictly decreases (guarantees termination)."""
    if not hasattr(mod, "reductions") or viol.get("class") == "hang":
        return case, viol
    t_end = time.time() + budget_s
    cur, cur_v = case, viol
    # re-execute first so that the recorded violation detail belongs to `cur`
    v0 = first_matching(mod, cur, viol)
    if v0 is None:
        raise HarnessError("violation did not reproduce in the parent process (nondeterministic run?) " + dumps(viol)[:400])
    cur_v = v0
    if hasattr(mod, "canonical"):
        cur = mod.canonical(cur, cur_v)
    improved = True
    while improved and time.time() < t_end:
        improved = False
        for cand in mod.reductions(cur, cur_v):
            if time.time() >= t_end:
                break
            if mod.measure(cand) >= mod.measure(cur):
                continue
            try:
                v = first_matching(mod, cand, viol)
            except HarnessError:
                continue
            except Exception:
                continue
            if v is not None:
                if hasattr(mod, "canonical"):
                    cand2 = mod.canonical(cand, v)
                    if mod.measure(cand2) <= mod.measure(cand):
                        cand = cand2
                cur, cur_v = cand, v
                improved = True
                break
    return cur, cur_v


# --------------------------------------------------------------------------
# replay files


def make_replay(mod, case, viol, original=None):
    rec = {
        "property": mod.PROPERTY,
        "engine": getattr(mod, "ENGINE", "?"),
        "check_version": CHECK_VERSION,
        "seed": case.get("seed"),
        "run": case.get("run"),
        "case": case,
        "violation": viol,
    }
    if original is not None and hasattr(mod, "measure"):
        rec["minimised_from"] = {"measure": list(mod.measure(original)), "to": list(mod.measure(case))}
    return rec


def write_replay(prop, rec):
    d = digest({"case": rec["case"], "violation": {k: rec["violation"].get(k) for k in ("class", "clause", "key")}})[:16]
    rdir = os.environ.get("VERIF_REPLAY_DIR", os.path.join(VERIF, "replays"))
    os.makedirs(rdir, exist_ok=True)
    path = os.path.join(rdir, f"{prop}-{d}.json")
    with open(path, "w") as f:
        f.write(dumps(rec, indent=1))
    return path


def replay_file(modname, path):
    """Run the case in this (fresh) interpreter; print the violation digest."""
    mod = importlib.import_module(modname)
    rec = json.load(open(path))
    if hasattr(mod, "prepare"):
        mod.prepare("quick")
    res = safe_execute(mod, rec["case"], Stats())
    want = rec["violation"]
    got = None
    for v in res.get("violations", []):
        if same_failure(v, want):
            got = v
            break
    if os.environ.get("VERIF_PROBE"):
        print("PROBE " + dumps(got))
        return EXIT_OK
    if got is None:
        print(f"REPLAY property={mod.PROPERTY} file={path} result=NOT-REPRODUCED other_violations={len(res.get('violations', []))}")
        return EXIT_OK
    same = digest(got) == digest(want)
    print(f"REPLAY property={mod.PROPERTY} file={path} result=REPRODUCED identical_record={same} digest={digest(got)[:16]}")
    print(f"VIOLATION property={mod.PROPERTY} replay={path}")
    print("  " + dumps(got)[:1500])
    return EXIT_VIOLATION if same else EXIT_HARNESS


def probe_replay(prop, rec):
    """Run a replay record in a fresh interpreter; returns the matching violation record it produces, or None."""
    import tempfile

    fd, tmp = tempfile.mkstemp(prefix=f"{prop}-probe-", suffix=".json", dir=os.environ.get("VERIF_REPLAY_DIR") if os.path.isdir(os.environ.get("VERIF_REPLAY_DIR", "/nonexistent")) else None)
    os.close(fd)
    try:
        with open(tmp, "w") as f:
            f.write(dumps(rec))
        env = dict(os.environ)
        env["PYTHONHASHSEED"] = "777"
        env["VERIF_NO_REEXEC"] = "1"
        env["VERIF_PROBE"] = "1"
        env.pop("HOME", None)
        try:
            p = subprocess.run([sys.executable, os.path.join(VERIF, "check"), prop, "--replay", tmp], capture_output=True, text=True, timeout=900, env=env)
        except subprocess.TimeoutExpired:
            return None
        for line in p.stdout.splitlines():
            if line.startswith("PROBE "):
                got = json.loads(line[6:])
                return got
        return None
    finally:
        try:
            os.remove(tmp)
        except OSError:
            pass


def sequence_replay(mod, prop, base_seed, tier, jobs, case, viol):
    """The shortest suffix of the worker's history (then with single predecessors dropped) that reproduces `viol`
    in a fresh interpreter.  Returns (case-with-sequence, violation record, replay path) or None."""
    r = case.get("run")
    if r is None:
        return None
    preds = history_of(r, jobs)
    if not preds:
        return None
    want = {k: viol.get(k) for k in ("class", "clause", "key")}
    hist = None
    k = 1
    tried = 0
    while tried < 8:
        take = preds[-k:]
        seq = [regenerate(mod, base_seed, q, tier) for q in take] + [case]
        got = probe_replay(prop, {"property": prop, "case": {"sequence": seq, "run": r, "seed": case.get("seed")}, "violation": want})
        tried += 1
        if got is not None:
            hist = seq
            break
        if k >= len(preds):
            break
        k = min(len(preds), k * 4)
    if hist is None:
        return None
    # drop single predecessors while it still reproduces (bounded)
    i = 0
    budget = 10
    while i < len(hist) - 1 and budget > 0:
        cand = hist[:i] + hist[i + 1:]
        budget -= 1
        g2 = probe_replay(prop, {"property": prop, "case": {"sequence": cand, "run": r, "seed": case.get("seed")}, "violation": want})
        if g2 is not None:
            hist, got = cand, g2
        else:
            i += 1
    small_case = {"sequence": hist, "run": r, "seed": case.get("seed"), "note": "needs the earlier cases of this sequence to run first in the same process (state kept across calls)"}
    got = dict(got)
    got.setdefault("key", {})
    rec = make_replay(mod, small_case, got)
    path = write_replay(prop, rec)
    ok, msg = verify_replay(prop, path)
    if not ok:
        return None
    return small_case, got, path


def verify_replay(prop, path, hashseed="12345"):
    """Fresh interpreter, another PYTHONHASHSEED: must reproduce the identical record."""
    env = dict(os.environ)
    env["PYTHONHASHSEED"] = hashseed
    env["VERIF_NO_REEXEC"] = "1"
    env.pop("HOME", None)
    try:
        p = subprocess.run([sys.executable, os.path.join(VERIF, "check"), prop, "--replay", path],
                           capture_output=True, text=True, timeout=600, env=env)
    except subprocess.TimeoutExpired:
        return False, "timeout"
    if p.returncode == EXIT_VIOLATION and "identical_record=True" in p.stdout:
        return True, ""
    return False, (p.stdout[-800:] + p.stderr[-800:])


# --------------------------------------------------------------------------
# evidence


def write_evidence(mod, tier, base_seed, stats, extra, wall, wall_runs, n_viol, n_known, reported, nruns, jobs):
    c = dict(stats.c)
    runs = c.get("runs", 0)
    cov = {
        "evaluations": runs,
        "distinct_nontrivial": len(stats.sets.get("distinct_nontrivial", ())),
        "distinct_cases": len(stats.sets.get("distinct", ())),
        "rule": mod.RULE,
        "samples": stats.samples[:3] if stats.samples else [{"note": "no non-trivial sample recorded"}],
        "technique": "deterministic simulation, seeded search over " + getattr(mod, "SEARCH_SPACE", "cases"),
        "runs_requested": nruns,
        "seeds": {"base": base_seed, "derivation": "seed_r = sha256(base, property, r)[:8], r in [0, runs)"},
        "runs_per_hour": int(runs / wall_runs * 3600) if wall_runs > 0 else 0,
        "worker_processes": jobs,
        "simulated_time": "none: osyris reads no clock and has no timers; progress is counted in simulator steps",
        "simulator_steps": {k[6:]: v for k, v in sorted(c.items()) if k.startswith("steps.")},
        "faults_fired": {k[6:]: v for k, v in sorted(c.items()) if k.startswith("fault.")},
        "probes": {k[6:]: v for k, v in sorted(c.items()) if k.startswith("probe.")},
        "ambiguity_bands": {k[6:]: v for k, v in sorted(c.items()) if k.startswith("ambig.")},
        "swarm": {k[6:]: v for k, v in sorted(c.items()) if k.startswith("swarm.")},
        "interleavings_or_states": {k: len(v) for k, v in sorted(stats.sets.items()) if k not in ("distinct", "distinct_nontrivial")},
        "real_vs_stub": getattr(mod, "REAL_STUB", {}),
        "violating_observations": c.get("violating_observations", 0),
        "reported": reported,
        "known_findings_matched": n_known,
        "exhaustive": False,
    }
    cov.update(extra or {})
    ev = {
        "property_id": mod.PROPERTY,
        "tier": tier,
        "seed": int(base_seed),
        "level": "exploration",
        "coverage": cov,
        "assumptions": list(getattr(mod, "ASSUMPTIONS", [])),
        "wall_s": round(wall, 2),
        "violations": n_viol,
    }
    edir = os.environ.get("VERIF_EVIDENCE_DIR", os.path.join(VERIF, "evidence"))
    os.makedirs(edir, exist_ok=True)
    with open(os.path.join(edir, f"{mod.PROPERTY}.json"), "w") as f:
        f.write(dumps(ev, indent=1))


def vcomps(v):
    """Component Arrays of a Vector, in x, y, z order, through public attributes (present components only)."""
    out = []
    for c in "xyz":
        a = getattr(v, c, None)
        if a is not None:
            out.append(a)
    return out
