"""Seam S2: the loader's view of the file system.  `open` is injected as a module
global into osyris.io.{loader,utils,hilbert,sink} (they call the builtin), and
`osyris.io.utils.glob` (a module attribute) is replaced by a shim.  The wrapper
records every path opened, in order, can fail the k-th open of a load
(OSError(EIO) / KeyboardInterrupt) and returns directory listings in a
PRNG-drawn order."""
import builtins
import errno
import glob as _glob
import importlib
import os

MODS = ["osyris.io.loader", "osyris.io.utils", "osyris.io.hilbert", "osyris.io.sink"]


class GlobShim:
    def __init__(self, order_rng=None):
        self.rng = order_rng

    def glob(self, pattern, *a, **k):
        out = sorted(_glob.glob(pattern, *a, **k))
        if self.rng is not None:
            self.rng.shuffle(out)
        return out

    def __getattr__(self, name):
        return getattr(_glob, name)


class FsSeam:
    def __init__(self, fail_at=None, fail_kind="EIO", glob_rng=None, only_binary=False):
        self.trace = []
        self.fail_at = fail_at  # index (0-based) of the open() that fails, counted from arm()
        self.fail_kind = fail_kind
        self.count = 0
        self.fired = False
        self.glob = GlobShim(glob_rng)
        self.only_binary = only_binary
        self._saved = []

    def arm(self, fail_at, fail_kind="EIO"):
        self.fail_at, self.fail_kind, self.count, self.fired = fail_at, fail_kind, 0, False

    def _open(self, path, *a, **k):
        mode = a[0] if a else k.get("mode", "r")
        self.trace.append((os.path.basename(str(path)), mode))
        idx = self.count
        self.count += 1
        if self.fail_at is not None and idx == self.fail_at and not self.fired:
            self.fired = True
            if self.fail_kind == "EIO":
                raise OSError(errno.EIO, "simulated I/O error", str(path))
            raise KeyboardInterrupt()
        return builtins.open(path, *a, **k)

    def __enter__(self):
        for name in MODS:
            m = importlib.import_module(name)
            self._saved.append((m, "open", m.__dict__.get("open", None)))
            m.open = self._open
        u = importlib.import_module("osyris.io.utils")
        self._saved.append((u, "glob", u.glob))
        u.glob = self.glob
        return self

    def __exit__(self, *exc):
        for m, attr, old in self._saved:
            if old is None and attr == "open":
                try:
                    delattr(m, attr)
                except AttributeError:
                    pass
            else:
                setattr(m, attr, old)
        self._saved = []
        return False
