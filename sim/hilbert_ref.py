"""Frozen copy of RAMSES' 3-D Hilbert state diagram (part of the file format:
it defines which rank owns which cell).  Taken from the pinned commit and
validated structurally by `validate` (bijective, unit steps, prefix property,
starts at the origin) -- osyris' own table is *not* imported, so a change to
it shows up as a disagreement between reader and writer."""

_SD = [1, 2, 3, 2, 4, 5, 3, 5, 0, 1, 3, 2, 7, 6, 4, 5, 2, 6, 0, 7, 8, 8, 0, 7, 0, 7, 1, 6, 3, 4, 2, 5, 0, 9, 10, 9, 1, 1, 11, 11, 0, 3, 7, 4, 1, 2, 6, 5, 6, 0, 6, 11, 9, 0, 9, 8, 2, 3, 1, 0, 5, 4, 6, 7, 11, 11, 0, 7, 5, 9, 0, 7, 4, 3, 5, 2, 7, 0, 6, 1, 4, 4, 8, 8, 0, 6, 10, 6, 6, 5, 1, 2, 7, 4, 0, 3, 5, 7, 5, 3, 1, 1, 11, 11, 4, 7, 3, 0, 5, 6, 2, 1, 6, 1, 6, 10, 9, 4, 9, 10, 6, 7, 5, 4, 1, 0, 2, 3, 10, 3, 1, 1, 10, 3, 5, 9, 2, 5, 3, 4, 1, 6, 0, 7, 4, 4, 8, 8, 2, 7, 2, 3, 2, 1, 5, 6, 3, 0, 4, 7, 7, 2, 11, 2, 7, 5, 8, 5, 4, 5, 7, 6, 3, 2, 0, 1, 10, 3, 2, 6, 10, 3, 4, 4, 6, 1, 7, 0, 5, 2, 4, 3]


def _sd(sdigit, j, cstate):
    # Fortran order reshape (8, 2, 12): index = sdigit + 8*j + 16*cstate
    return _SD[sdigit + 8 * j + 16 * cstate]


def hilbert3d(x, y, z, bit_length):
    cstate = 0
    order = 0
    for i in range(bit_length - 1, -1, -1):
        b2 = (x >> i) & 1
        b1 = (y >> i) & 1
        b0 = (z >> i) & 1
        sdigit = b2 * 4 + b1 * 2 + b0
        nstate = _sd(sdigit, 0, cstate)
        hdigit = _sd(sdigit, 1, cstate)
        order = (order << 3) | hdigit
        cstate = nstate
    return order


def validate(maxbits=4):
    for b in range(1, maxbits + 1):
        n = 2 ** b
        inv = {}
        for x in range(n):
            for y in range(n):
                for z in range(n):
                    k = hilbert3d(x, y, z, b)
                    assert 0 <= k < n ** 3 and k not in inv, "not bijective"
                    inv[k] = (x, y, z)
        assert inv[0] == (0, 0, 0), "does not start at the origin"
        for k in range(n ** 3 - 1):
            a, c = inv[k], inv[k + 1]
            assert sum(abs(p - q) for p, q in zip(a, c)) == 1, "consecutive keys are not unit-step neighbours"
        if b > 1:
            for k, (x, y, z) in inv.items():
                assert hilbert3d(x >> 1, y >> 1, z >> 1, b - 1) == k >> 3, "prefix property violated"
    return True
