"""Engine H helpers: histories of operations issued by simulated holders
against one system under test and, in lock-step, a small reference model
(DESIGN.md 2.4).  Operations are self-contained symbolic records, so every
sub-list of a history is executable (that is what makes ddmin possible)."""
import numpy as np

UNIT_FACTOR = {  # independent table: factor to the CGS base of the dimension family
    "": ("none", 1.0), "dimensionless": ("none", 1.0),
    "cm": ("length", 1.0), "m": ("length", 100.0), "km": ("length", 1.0e5),
    "g": ("mass", 1.0), "kg": ("mass", 1000.0),
    "s": ("time", 1.0), "ms": ("time", 1.0e-3),
    "K": ("temperature", 1.0),
}


def list_reductions(case, field="ops", keep_min=1):
    """ddmin-style candidates: drop chunks (halves ... single ops)."""
    ops = case[field]
    n = len(ops)
    chunk = max(1, n // 2)
    seen = set()
    while chunk >= 1:
        for s in range(0, n, chunk):
            cand = ops[:s] + ops[s + chunk:]
            if len(cand) >= keep_min and len(cand) < n:
                key = (s, chunk)
                if key not in seen:
                    seen.add(key)
                    c = dict(case)
                    c[field] = cand
                    yield c
        if chunk == 1:
            break
        chunk //= 2


def same_values(a, b, rtol=0.0):
    a, b = np.asarray(a), np.asarray(b)
    if a.shape != b.shape:
        return False
    if rtol == 0.0:
        return bool(np.array_equal(a, b, equal_nan=True)) if a.dtype.kind == "f" or b.dtype.kind == "f" else bool(np.array_equal(a, b))
    return bool(np.allclose(a, b, rtol=rtol, atol=0.0, equal_nan=True))


def exc_name(e):
    return type(e).__name__
