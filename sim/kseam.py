"""Seam S1: swap a numba kernel (module global of a plot front-end module) for
its simulated version while the real front-end runs."""
import importlib
import inspect

from .core import HarnessError
from .parsim import KernelSim, Sim

_CACHE = {}


def kernel(modname, attr):
    """(front-end module, kernel object, KernelSim) for the module global `attr`; if the front-end imports the
    kernel under another name the global bound to osyris.plot.utils.<attr> is used; (mod, None, None) if there is none."""
    key = (modname, attr)
    if key not in _CACHE:
        mod = importlib.import_module(modname)
        obj = getattr(mod, attr, None)
        name = attr
        if obj is None:
            try:
                ref = getattr(importlib.import_module("osyris.plot.utils"), attr)
            except (ImportError, AttributeError):
                ref = None
            for k, v in vars(mod).items():
                if ref is not None and v is ref:
                    obj, name = v, k
                    break
        _CACHE[key] = (mod, obj, KernelSim(obj) if obj is not None else None, name)
    return _CACHE[key][:3]


def seam_name(modname, attr):
    kernel(modname, attr)
    return _CACHE[(modname, attr)][3]


class Seam:
    """Context manager.  `sim_factory()` must return a fresh Sim per kernel call."""

    def __init__(self, modname, attr, sim_factory, knob_scale=None):
        self.knob_scale = knob_scale
        self.mod, self.orig, self.ks = kernel(modname, attr)
        self.attr = seam_name(modname, attr)
        self.sim_factory = sim_factory
        self.calls = []

    def __enter__(self):
        if self.ks is None:
            return self  # no seam: the front-end runs as shipped, nothing is recorded
        ks, calls, factory = self.ks, self.calls, self.sim_factory
        sig = inspect.signature(ks.py)

        def simulated_kernel(*a, **k):
            sim = factory()
            try:
                bound = sig.bind(*a, **k)
                bound.apply_defaults()
                args = dict(bound.arguments)
            except TypeError:
                args = {"args": a, "kwargs": k}
            res = ks.run(sim, *a, knob_scale=self.knob_scale, **k)
            calls.append({"args": args, "result": res, "sim": sim})
            return res

        setattr(self.mod, self.attr, simulated_kernel)
        return self

    def __exit__(self, *exc):
        if self.ks is not None:
            setattr(self.mod, self.attr, self.orig)
        return False


def compiled_call(modname, attr, args, nthreads=1):
    """Deterministic real execution: the compiled kernel with one numba thread."""
    import numba

    mod, orig, ks = kernel(modname, attr)
    if not hasattr(orig, "py_func"):
        return orig(**args)
    old = numba.get_num_threads()
    numba.set_num_threads(nthreads)
    try:
        return orig(**args)
    finally:
        numba.set_num_threads(old)


def same_results(a, b):
    """Bit-equality of two kernel results (arrays, or tuples/lists of arrays, NaN == NaN)."""
    import numpy as np

    if isinstance(a, (tuple, list)) or isinstance(b, (tuple, list)):
        return isinstance(a, (tuple, list)) and isinstance(b, (tuple, list)) and len(a) == len(b) and all(same_results(x, y) for x, y in zip(a, b))
    x, y = np.asarray(a), np.asarray(b)
    if x.shape != y.shape:
        return False
    try:
        return bool(np.array_equal(x, y, equal_nan=True))
    except TypeError:
        return bool(np.array_equal(x, y))
