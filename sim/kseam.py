"""Seam S1: swap a numba kernel (module global of a plot front-end module) for
its simulated version while the real front-end runs."""
import importlib
import inspect

from .core import HarnessError
from .parsim import KernelSim, Sim

_CACHE = {}


def kernel(modname, attr):
    key = (modname, attr)
    if key not in _CACHE:
        mod = importlib.import_module(modname)
        obj = getattr(mod, attr, None)
        if obj is None:
            raise HarnessError(f"HARNESS-UNSUPPORTED: seam {modname}.{attr} not found")
        _CACHE[key] = (mod, obj, KernelSim(obj))
    return _CACHE[key]


class Seam:
    """Context manager.  `sim_factory()` must return a fresh Sim per kernel call."""

    def __init__(self, modname, attr, sim_factory):
        self.mod, self.orig, self.ks = kernel(modname, attr)
        self.attr = attr
        self.sim_factory = sim_factory
        self.calls = []

    def __enter__(self):
        ks, calls, factory = self.ks, self.calls, self.sim_factory
        sig = inspect.signature(ks.py)

        def simulated_kernel(*a, **k):
            sim = factory()
            try:
                bound = sig.bind(*a, **k)
                bound.apply_defaults()
                args = dict(bound.arguments)
            except TypeError:
                args = {"args": a, "kwargs": k}
            res = ks.run(sim, *a, **k)
            calls.append({"args": args, "result": res, "sim": sim})
            return res

        setattr(self.mod, self.attr, simulated_kernel)
        return self

    def __exit__(self, *exc):
        setattr(self.mod, self.attr, self.orig)
        return False


def compiled_call(modname, attr, args, nthreads=1):
    """Deterministic real execution: the compiled kernel with one numba thread."""
    import numba

    mod, orig, ks = kernel(modname, attr)
    if not hasattr(orig, "py_func"):
        return orig(**args)
    old = numba.get_num_threads()
    numba.set_num_threads(nthreads)
    try:
        return orig(**args)
    finally:
        numba.set_num_threads(old)
