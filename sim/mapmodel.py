"""Reference model for the map checks (C03, C11, C19): in-memory AMR leaf
tilings, map-call construction, and an independent point-location oracle in
the original axes."""
import math

import numpy as np

from .core import HarnessError
from .ramses import World

UNIT_CM = {"cm": 1.0, "m": 100.0, "km": 1.0e5, "au": 1.495978707e13}


def u01_(*parts):
    from .core import H

    return (H(*parts) >> 11) / float(1 << 53)


def gen_mesh(rng, tier, ndim=None, maxcells=None):
    ndim = ndim or rng.choice([2, 3, 3])
    levelmin = rng.choice([1, 1, 2])
    levelmax = rng.choice([levelmin, levelmin + 1, levelmin + 1, levelmin + 2, min(levelmin + 3, 5)])
    if ndim == 3:
        levelmax = min(levelmax, 4)
    return {
        "wseed": rng.getrandbits(40), "ndim": ndim, "levelmin": levelmin, "levelmax": levelmax,
        "refine_p": rng.choice([0.15, 0.3, 0.5]), "maxcells": maxcells or rng.choice([40, 120, 300]),
        "holes": rng.choice([0.0, 0.0, 0.0, 0.1, 0.4]), "hole_box": rng.random() < 0.2,
        "unit": rng.choice(["cm", "cm", "m", "au"]), "scale": rng.choice([1.0, 1.0, 2.5, 1e-3]),
    }


def build_mesh(m):
    """Returns list of cells {pos (tuple, in spatial unit), dx, gid, level}."""
    w = World({"wseed": m["wseed"], "ndim": m["ndim"], "ncpu": 1, "levelmin": m["levelmin"], "levelmax": m["levelmax"],
               "refine_p": m["refine_p"], "maxcells": m["maxcells"], "ordering": "planar", "chain": m.get("chain")})
    cells = []
    hb = None
    if m.get("hole_box"):
        c = [u01_(m["wseed"], "hb", d) for d in range(m["ndim"])]
        hb = (c, 0.15 + 0.2 * u01_(m["wseed"], "hbw"))
    for c in w.leaves():
        if m["holes"] and u01_(m["wseed"], "hole", c["level"], *c["cidx"]) < m["holes"]:
            continue
        if hb and all(abs(c["pos"][d] - hb[0][d]) < hb[1] for d in range(m["ndim"])):
            continue
        cells.append({"pos": tuple(p * m["scale"] for p in c["pos"]), "dx": c["dx"] * m["scale"], "gid": w.gid(c["level"], c["cidx"]), "level": c["level"]})
    if not cells:
        c = w.leaves()[0]
        cells.append({"pos": tuple(p * m["scale"] for p in c["pos"]), "dx": c["dx"] * m["scale"], "gid": w.gid(c["level"], c["cidx"]), "level": c["level"]})
    return cells


def mesh_datagroup(m, cells):
    import osyris

    ndim = m["ndim"]
    P = np.array([c["pos"] for c in cells], dtype=float)
    g = np.array([c["gid"] for c in cells], dtype=float)
    dg = osyris.Datagroup()
    dg["position"] = osyris.Vector(*[P[:, d].copy() for d in range(ndim)], unit=m["unit"])
    dg["dx"] = osyris.Array(values=np.array([c["dx"] for c in cells], dtype=float), unit=m["unit"])
    dg["density"] = osyris.Array(values=g + 1.0, unit="g/cm**3")
    dg["temperature"] = osyris.Array(values=(1000.0 + 3.0 * g).astype(np.float32), unit="K")  # single precision, exactly representable
    comps = [((g * 7 + 3 * d) % 23) - 11.0 + 0.5 * d for d in range(ndim)]
    dg["velocity"] = osyris.Vector(*comps, unit="cm/s")
    dg["mass"] = osyris.Array(values=np.ones(len(cells)), unit="g")
    dg["level"] = osyris.Array(values=np.array([c["level"] for c in cells], dtype=np.int64), unit="")
    dg["flag"] = osyris.Array(values=(g.astype(np.int64) * 7 % 11 - 3).astype(np.int32), unit="")
    return dg


def cell_values(m, cells):
    """Model values per cell: dict name -> array (scalars) / (n, ndim) array (vectors)."""
    g = np.array([c["gid"] for c in cells], dtype=float)
    ndim = m["ndim"]
    return {"level": np.array([c["level"] for c in cells], dtype=float), "flag": (g.astype(np.int64) * 7 % 11 - 3).astype(float),
            "density": g + 1.0, "temperature": 1000.0 + 3.0 * g,
            "velocity": np.stack([((g * 7 + 3 * d) % 23) - 11.0 + 0.5 * d for d in range(ndim)], axis=1)}


class Locator:
    """Independent point location among non-overlapping cubic cells (original axes)."""

    def __init__(self, cells, ndim):
        self.C = np.array([c["pos"] for c in cells], dtype=float).reshape(len(cells), ndim)
        self.h = 0.5 * np.array([c["dx"] for c in cells], dtype=float)
        self.ndim = ndim

    def locate(self, p, eps):
        """-> (inside: indices strictly containing p with margin eps, touching: indices within eps of containing p)"""
        d = np.abs(self.C - np.asarray(p)[None, : self.ndim])
        inside = np.all(d < (self.h[:, None] - eps), axis=1)
        touch = np.all(d <= (self.h[:, None] + eps), axis=1)
        return np.nonzero(inside)[0], np.nonzero(touch)[0]


def basis_arrays(basis, ndim):
    """(n, u, v) as float arrays of length 3 from an osyris VectorBasis."""
    out = []
    for vec in (basis.n, basis.u, basis.v):
        a = [float(vec.x.values), float(vec.y.values), float(vec.z.values) if vec.z is not None else 0.0]
        out.append(np.array(a))
    return out


def check_basis(n, u, v, want_normal=None):
    tol = 1e-9
    for a in (n, u, v):
        if abs(np.linalg.norm(a) - 1.0) > tol:
            return "not-unit"
    if abs(n @ u) > tol or abs(n @ v) > tol or abs(u @ v) > tol:
        return "not-orthogonal"
    if want_normal is not None:
        wn = np.asarray(want_normal, dtype=float)
        wn = wn / np.linalg.norm(wn)
        if np.linalg.norm(np.cross(n, wn)) > 1e-9:
            return "normal-not-parallel"
    return None


def gen_direction(rng, ndim):
    if ndim < 3:
        return {"kind": "none"}
    k = rng.choice(["letter", "letter", "triple", "triple", "vector", "vector", "vector-z0", "near-axis", "basis", "axis-vector", "axis-basis"])
    if k == "axis-vector":
        # a normal lying exactly along a coordinate axis, either way, given as a Vector
        v = [0.0, 0.0, 0.0]
        v[rng.randrange(3)] = rng.choice([1.0, -1.0, 1.0, -1.0, 2.0, -0.5])
        return {"kind": "vec", "v": v}
    if k == "axis-basis":
        # an explicit basis made of coordinate axes with signs (u or v pointing along a negative axis)
        perm = [0, 1, 2]
        rng.shuffle(perm)
        out = {}
        for name, ax in zip("nuv", perm):
            w = [0.0, 0.0, 0.0]
            w[ax] = rng.choice([1.0, -1.0])
            out[name] = w
        return dict(out, kind="basis")
    if k == "basis":
        # an explicit orthonormal basis (n, u, v), right- or left-handed, given as a VectorBasis
        import math

        a, b, c = (rng.uniform(0, 2 * math.pi) for _ in range(3))
        ca, sa, cb, sb, cc, sc = math.cos(a), math.sin(a), math.cos(b), math.sin(b), math.cos(c), math.sin(c)
        R = [[cb * cc, sa * sb * cc - ca * sc, ca * sb * cc + sa * sc],
             [cb * sc, sa * sb * sc + ca * cc, ca * sb * sc - sa * cc],
             [-sb, sa * cb, ca * cb]]
        cols = [[R[0][j], R[1][j], R[2][j]] for j in range(3)]
        n_, u_, v_ = cols[2], cols[0], cols[1]  # right-handed: u x v = n
        if rng.random() < 0.5:
            v_ = [-q for q in v_]  # left-handed request
        scale = [rng.choice([1.0, 2.5, 0.3]) for _ in range(3)]
        return {"kind": "basis", "n": [q * scale[0] for q in n_], "u": [q * scale[1] for q in u_], "v": [q * scale[2] for q in v_]}
    if k == "letter":
        return {"kind": "str", "s": rng.choice(["x", "y", "z", "Z"])}
    if k == "triple":
        p = list("xyz")
        rng.shuffle(p)
        return {"kind": "str", "s": "".join(p)}
    if k == "vector":
        return {"kind": "vec", "v": [round(rng.uniform(-2, 2), 3) or 0.5, round(rng.uniform(-2, 2), 3) or -0.25, round(rng.uniform(-2, 2), 3) or 1.0]}
    if k == "vector-z0":
        return {"kind": "vec", "v": [round(rng.uniform(-2, 2), 3) or 1.0, round(rng.uniform(-2, 2), 3) or 1.0, 0.0]}
    v = [1e-3 * rng.uniform(-1, 1), 1e-3 * rng.uniform(-1, 1), 1e-3 * rng.uniform(-1, 1)]
    v[rng.randrange(3)] = rng.choice([1.0, -1.0, 3.0])
    return {"kind": "vec", "v": v}


def direction_arg(d):
    import osyris

    if d["kind"] == "none":
        return "z"
    if d["kind"] == "str":
        return d["s"]
    if d["kind"] == "basis":
        return osyris.VectorBasis(n=osyris.Vector(*d["n"]), u=osyris.Vector(*d["u"]), v=osyris.Vector(*d["v"]))
    return osyris.Vector(*d["v"])


def requested_normal(d):
    if d["kind"] == "none":
        return [0, 0, 1]
    if d["kind"] == "str":
        return {"x": [1, 0, 0], "y": [0, 1, 0], "z": [0, 0, 1]}[d["s"][0].lower()]
    if d["kind"] == "basis":
        return d["n"]
    return d["v"]


def documented_basis(d):
    """(n, u, v) that the documentation promises for an axis letter, an axis triple or an explicit basis; None for a bare normal."""
    ax = {"x": np.array([1.0, 0.0, 0.0]), "y": np.array([0.0, 1.0, 0.0]), "z": np.array([0.0, 0.0, 1.0])}
    if d["kind"] == "str":
        t = d["s"].lower()
        if len(t) == 1:
            t = {"x": "xyz", "y": "yzx", "z": "zxy"}[t]
        return [ax[t[0]], ax[t[1]], ax[t[2]]]
    if d["kind"] == "basis":
        out = []
        for k in ("n", "u", "v"):
            a = np.array(d[k], dtype=float)
            out.append(a / np.linalg.norm(a))
        return out
    return None


def gen_view(rng, m, cells):
    """origin / window / resolution of a map call."""
    ndim = m["ndim"]
    box = m["scale"]
    smin = min(c["dx"] for c in cells)
    smax = max(c["dx"] for c in cells)
    ok = rng.choice(["inside", "inside", "cell-centre", "near", "zero", "corner"])
    if ok == "corner":
        # just inside or outside a corner/edge of the domain: the plane clips only a few cells, all on one side
        origin = [box * rng.choice([0.0, 1.0]) + box * rng.uniform(-0.15, 0.05) * rng.choice([1, -1]) for _ in range(ndim)]
    elif ok == "inside":
        origin = [box * rng.uniform(0.05, 0.95) for _ in range(ndim)]
    elif ok == "cell-centre":
        c = rng.choice(cells)
        origin = [c["pos"][d] + c["dx"] * rng.uniform(-0.3, 0.3) for d in range(ndim)]
    elif ok == "near":
        origin = [box * rng.uniform(-0.2, 1.2) for _ in range(ndim)]
    else:
        origin = None
    wk = rng.choice(["sub-cell", "cell", "few", "domain", "beyond", "none"] + (["none", "none"] if ok == "corner" else []))
    if wk == "sub-cell":
        dx = smin * rng.uniform(0.02, 0.9)
    elif wk == "cell":
        dx = rng.choice([smin, smax]) * rng.uniform(0.9, 2.5)
    elif wk == "few":
        dx = smax * rng.uniform(2, 6)
    elif wk == "domain":
        dx = box * rng.uniform(0.6, 1.2)
    elif wk == "beyond":
        dx = box * rng.uniform(1.2, 3.0)
    else:
        dx = None
    dy = None
    if dx is not None and rng.random() < 0.3:
        dy = dx * rng.uniform(0.4, 2.0)
    wunit = m["unit"] if rng.random() < 0.6 else rng.choice(["cm", "m", "au"])
    ounit = m["unit"] if rng.random() < 0.8 else rng.choice(["cm", "m"])
    r = rng.choice([1, 2, 3, 4, 6, 8, 12, 16, 24])
    res = r if rng.random() < 0.6 else {"x": r, "y": rng.choice([1, 3, 5, 8, 16])}
    return {"origin": origin, "origin_unit": ounit, "dx": dx, "dy": dy, "window_unit": wunit, "resolution": res}


def view_kwargs(view, m):
    """kwargs for osyris.map from a view spec (values are given in the mesh's spatial unit and converted)."""
    import osyris

    kw = {}
    su = UNIT_CM[m["unit"]]
    if view["origin"] is not None:
        f = su / UNIT_CM[view["origin_unit"]]
        kw["origin"] = osyris.Vector(*[o * f for o in view["origin"]], unit=view["origin_unit"])
    if view["dx"] is not None:
        f = su / UNIT_CM[view["window_unit"]]
        kw["dx"] = view["dx"] * f * osyris.units(view["window_unit"])
        if view["dy"] is not None:
            kw["dy"] = view["dy"] * f * osyris.units(view["window_unit"])
    res = view["resolution"]
    kw["resolution"] = dict(res) if isinstance(res, dict) else res
    return kw
