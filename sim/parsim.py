"""Engine K: a simulated numba parallel runtime (DESIGN.md 2.2).

The kernel's real *source* (py_func of the njit dispatcher found in the tree
under test) is re-compiled by CPython after outlining the outermost
`for .. in prange(..)` loops into closures.  A simulated runtime executes the
closure on T simulated workers.  Workers are real Python threads, but exactly
one holds the baton at any time and the baton only moves inside `Sim`, at
element loads/stores of arrays the kernel writes -- the OS never chooses.
"""
import ast
import inspect
import textwrap
import threading

import numpy as np

from .core import HarnessError

INT64_MIN = -(2**63)
WAIT_TIMEOUT = 120.0


class I64(int):
    """A Python int that wraps like numba's int64 under +, -, * and unary minus (an index computed from the
    'integer indefinite' of a NaN conversion overflows silently in compiled code; it must do the same here)."""

    __slots__ = ()

    @staticmethod
    def _w(v):
        v &= (1 << 64) - 1
        return I64(v - (1 << 64) if v >= (1 << 63) else v)

    def __add__(self, o):
        return I64._w(int(self) + int(o)) if isinstance(o, (int, np.integer)) and not isinstance(o, bool) else int.__add__(self, o)

    __radd__ = __add__

    def __sub__(self, o):
        return I64._w(int(self) - int(o)) if isinstance(o, (int, np.integer)) and not isinstance(o, bool) else int.__sub__(self, o)

    def __rsub__(self, o):
        return I64._w(int(o) - int(self)) if isinstance(o, (int, np.integer)) and not isinstance(o, bool) else int.__rsub__(self, o)

    def __mul__(self, o):
        return I64._w(int(self) * int(o)) if isinstance(o, (int, np.integer)) and not isinstance(o, bool) else int.__mul__(self, o)

    __rmul__ = __mul__

    def __neg__(self):
        return I64._w(-int(self))


def nb_int(v):
    """numba/x86 semantics of int(float): truncate toward zero; NaN, +-inf and
    out-of-range give INT64_MIN (cvttsd2si's 'integer indefinite'); the result wraps like an int64 in later arithmetic."""
    if isinstance(v, (bool, np.bool_)):
        return int(v)
    if isinstance(v, (int, np.integer)):
        return int(v)
    f = float(v)
    if f != f or f in (float("inf"), float("-inf")) or abs(f) >= 2.0**63:
        return I64(INT64_MIN)
    return I64(int(f))


class Abort(BaseException):
    pass


class KernelError(Exception):
    """The kernel body raised under simulation (e.g. out-of-bounds index)."""


# --------------------------------------------------------------------------
# schedulers (policy mode).  Each returns the worker to run next.


class Policy:
    def __init__(self, spec, rng, sim):
        self.spec, self.rng, self.sim = spec, rng, sim
        self.kind = spec["kind"]
        self.chase = None  # (target, element, return_to)
        if self.kind == "pct":
            T = sim.T
            order = list(range(T))
            rng.shuffle(order)
            self.prio = {w: T - i for i, w in enumerate(order)}
            est = max(1, int(spec.get("est_events", 100)))
            self.change = sorted(rng.randrange(est) for _ in range(spec.get("d", 1)))
            self.low = 0

    def first(self, runnable):
        if self.kind == "pct":
            return max(runnable, key=lambda w: self.prio[w])
        return self.rng.choice(runnable)

    def on_finish(self, runnable):
        if self.chase is not None:
            tgt, el, back = self.chase
            self.chase = None
            if back in runnable:
                return back
        if self.kind == "pct":
            return max(runnable, key=lambda w: self.prio[w])
        return self.rng.choice(runnable)

    def next(self, tid, kind, el, runnable):
        sim = self.sim
        if self.kind == "seq":
            return tid
        if self.kind == "random":
            if len(runnable) > 1 and self.rng.random() < self.spec["p"]:
                return self.rng.choice([w for w in runnable if w != tid])
            return tid
        if self.kind == "pct":
            if self.change and sim.nevents >= self.change[0]:
                self.change.pop(0)
                self.low -= 1
                self.prio[tid] = self.low
            return max(runnable, key=lambda w: self.prio[w])
        if self.kind == "conflict":
            # chase in progress: keep the target running until it has stored `el`
            if self.chase is not None:
                tgt, cel, back = self.chase
                if tid == tgt:
                    if sim.last_store.get(tgt) == cel:
                        self.chase = None
                        if back in runnable:
                            return back
                    return tid
                self.chase = None
            others = [w for w in runnable if w != tid]
            if not others:
                return tid
            cont = sim.contenders.get(el)
            if cont and (kind == "store" or self.spec.get("on_load")):
                cands = [w for w in others if w in cont and sim.remaining_touch(w, el)]
                if cands and self.rng.random() < self.spec["q"]:
                    tgt = self.rng.choice(cands)
                    self.chase = (tgt, el, tid)
                    sim.last_store.pop(tgt, None)
                    return tgt
            if self.rng.random() < self.spec.get("p", 0.02):
                return self.rng.choice(others)
            return tid
        raise HarnessError(f"unknown scheduler {self.kind}")


# --------------------------------------------------------------------------


class Sim:
    """One simulated execution of a kernel.

    T           number of simulated workers
    partition   {"kind": "static-equal"} | {"kind": "static-uneven", "cuts": [fractions]}
                | {"kind": "dynamic", "k": chunk}
    decisions   explicit decision list (replay mode) or None (policy mode)
    policy      scheduler spec for policy mode
    """

    def __init__(self, T=1, partition=None, decisions=None, policy=None, rng=None,
                 record=False, contenders=None, touches=None, max_events=2_000_000):
        self.T = max(1, int(T))
        self.partition = partition or {"kind": "static-equal"}
        self.replay = list(decisions) if decisions is not None else None
        self.rpos = 0
        self.rng = rng
        self.policy_spec = policy or {"kind": "seq"}
        self.decisions = []
        self.current = None
        self.in_region = False
        self.nevents = 0
        self.max_events = max_events
        self.arrays = []
        self.error = None
        self.record = record
        self.iter_access = {}  # (region, iteration) -> [(kind, aid, flat)]
        self.cur_iter = {}
        self.contenders = contenders or {}
        self.touches = touches or {}  # worker -> {el: count remaining}
        self.last_store = {}
        self.nregions = 0
        self.assignment = {}  # region -> {worker: [iterations]} (static) / order taken (dynamic)
        # probes / reach
        self.switches = 0
        self.version = {}
        self.pending = {}
        self.sig = {}
        self.probe = {"lost_update_window": 0, "ww_collision": 0, "shared_elements": 0, "torn_store": 0}
        self.last_tid = None
        self.vecstore = {}

    # --- bookkeeping -------------------------------------------------------
    def remaining_touch(self, w, el):
        return self.touches.get(w, {}).get(el, 0) > 0

    def _note(self, tid, kind, el):
        t = self.touches.get(tid)
        if t is not None and el in t and t[el] > 0:
            t[el] -= 1
        if kind == "load":
            self.pending.setdefault(el, {})[tid] = self.version.get(el, 0)
        else:
            p = self.pending.get(el)
            ver = self.version.get(el, 0)
            if p is not None and tid in p:
                if p.pop(tid) != ver:
                    self.probe["lost_update_window"] += 1
            lw = self.sig.get(el)
            if lw is not None and lw[-1][0] != tid:
                self.probe["ww_collision"] += 1
            self.version[el] = ver + 1
            self.last_store[tid] = el
        s = self.sig.setdefault(el, [])
        if not s or s[-1] != (tid, kind):
            s.append((tid, kind))

    def conflict_signature(self):
        """Order of (worker, load|store) on every element touched by >= 2 workers."""
        import hashlib

        shared = {el: s for el, s in self.sig.items() if len({w for w, _ in s}) > 1}
        self.probe["shared_elements"] = len(shared)
        h = hashlib.sha256(repr(sorted(shared.items())).encode()).hexdigest()[:16]
        return h, len(shared)

    # --- memory access hook --------------------------------------------------
    def access(self, kind, arr, flat):
        """Called *before* the element operation is performed."""
        if not self.in_region:
            return
        tid = self.current
        self.nevents += 1
        if self.nevents > self.max_events:
            raise HarnessError("event cap exceeded")
        el = (arr.aid, flat)
        if self.record:
            self.iter_access.setdefault(self.cur_iter[tid], []).append((kind, arr.aid, flat))
        nxt = self._choose(tid, kind, el)
        self.decisions.append(nxt)
        if nxt != tid:
            self.switches += 1
            self._handoff(tid, nxt)
        self._note(tid, kind, el)

    def _choose(self, tid, kind, el):
        if self.T == 1:
            return tid
        if self.replay is not None:
            if self.rpos < len(self.replay):
                c = self.replay[self.rpos]
                self.rpos += 1
                # total: an invalid choice means "stay"
                return c if c in self.runnable else tid
            return tid
        return self.policy.next(tid, kind, el, self.runnable)

    def _choose_free(self, first):
        """Decision when no worker holds the baton (region start / a worker finished)."""
        if self.replay is not None:
            c = None
            if self.rpos < len(self.replay):
                c = self.replay[self.rpos]
                self.rpos += 1
            if c not in self.runnable:
                c = min(self.runnable)
            return c
        if first:
            return self.policy.first(sorted(self.runnable))
        return self.policy.on_finish(sorted(self.runnable))

    def _handoff(self, me, nxt):
        self.current = nxt
        ev = self.events[me]
        ev.clear()
        self.events[nxt].set()
        if not ev.wait(WAIT_TIMEOUT):
            self.error = self.error or HarnessError("baton lost (timeout)")
            raise Abort()
        if self.error is not None:
            raise Abort()

    # --- partition -----------------------------------------------------------
    def _blocks(self, n):
        T = self.T
        kind = self.partition["kind"]
        if kind == "static-equal":
            q, r = divmod(n, T)
            sizes = [q + (1 if k < r else 0) for k in range(T)]
        elif kind == "static-uneven":
            cuts = sorted(min(n, max(0, int(round(c * n)))) for c in self.partition["cuts"][: T - 1])
            cuts = cuts + [n] * (T - 1 - len(cuts))
            edges = [0] + cuts + [n]
            sizes = [edges[k + 1] - edges[k] for k in range(T)]
        else:
            return None
        out, s = [], 0
        for k in range(T):
            out.append((s, s + sizes[k]))
            s += sizes[k]
        return out

    # --- parallel region -------------------------------------------------------
    def parfor(self, body, *rargs):
        its = list(range(*[int(a) for a in rargs]))
        n = len(its)
        region = self.nregions
        self.nregions += 1
        if self.in_region:
            # nested prange: numba runs inner pranges serially
            for it in its:
                body(it)
            return
        T = self.T
        blocks = self._blocks(n)
        queue = None
        if blocks is None:
            k = max(1, int(self.partition.get("k", 1)))
            queue = [its[s: s + k] for s in range(0, n, k)]
            work = {w: [] for w in range(T)}
        else:
            work = {w: its[a:b] for w, (a, b) in enumerate(blocks)}
        self.assignment[region] = {w: list(v) for w, v in work.items()}
        if self.replay is None:
            self.policy = Policy(self.policy_spec, self.rng, self)
        if T == 1:
            # no threads needed: run inline (same event accounting)
            self.in_region, self.current = True, 0
            self.runnable = [0]
            try:
                src = work[0] if queue is None else [i for d in queue for i in d]
                for it in src:
                    self.cur_iter[0] = (region, it)
                    body(it)
            except HarnessError:
                raise
            except Abort:
                raise self.error
            except Exception as e:
                raise KernelError(f"{type(e).__name__}: {e}") from e
            finally:
                self.in_region, self.current = False, None
            return

        self.events = {w: threading.Event() for w in range(T)}
        done = threading.Event()
        self.runnable = list(range(T))

        def worker(w):
            if not self.events[w].wait(WAIT_TIMEOUT):
                self.error = self.error or HarnessError("worker never scheduled (timeout)")
                done.set()
                return
            try:
                if self.error is None:
                  with np.errstate(divide="raise"):  # numba raises on float division by zero (threads do not inherit errstate)
                    if queue is None:
                        for it in work[w]:
                            self.cur_iter[w] = (region, it)
                            body(it)
                    else:
                        while queue:
                            div = queue.pop(0)
                            self.assignment[region][w].extend(div)
                            for it in div:
                                self.cur_iter[w] = (region, it)
                                body(it)
            except Abort:
                return
            except HarnessError as e:
                self.error = self.error or e
            except BaseException as e:
                self.error = self.error or KernelError(f"{type(e).__name__}: {e}")
            self.runnable.remove(w)
            if self.error is not None or not self.runnable:
                self.current = None
                done.set()
                for ev in self.events.values():
                    ev.set()
                return
            try:
                nxt = self._choose_free(first=False)
            except BaseException as e:  # scheduler bug: do not hang
                self.error = HarnessError(f"scheduler failed: {e!r}")
                self.current = None
                done.set()
                for ev in self.events.values():
                    ev.set()
                return
            self.decisions.append(nxt)
            self.current = nxt
            self.events[nxt].set()

        threads = [threading.Thread(target=worker, args=(w,), daemon=True) for w in range(T)]
        for th in threads:
            th.start()
        self.in_region = True
        first = self._choose_free(first=True)
        self.decisions.append(first)
        self.current = first
        self.events[first].set()
        if not done.wait(WAIT_TIMEOUT * 4):
            self.error = self.error or HarnessError("parallel region did not finish (timeout)")
            for ev in self.events.values():
                ev.set()
        for th in threads:
            th.join(WAIT_TIMEOUT)
        self.in_region, self.current = False, None
        if self.error is not None:
            raise self.error

    # numba API seen by the kernel
    def get_thread_id(self):
        return self.current if self.in_region else 0

    def get_num_threads(self):
        return self.T


# --------------------------------------------------------------------------
# arrays


def _flat_targets(a, key):
    idx = np.arange(a.size).reshape(a.shape)[key]
    return np.atleast_1d(idx).ravel()


class SimView:
    """Lazy non-scalar view of a hot SimArray inside a parallel region:
    loads happen (element by element, each an event) when it is read."""

    def __init__(self, parent, key):
        self.parent, self.key = parent, key

    @property
    def shape(self):
        return self.parent.a[self.key].shape

    def _load(self):
        p = self.parent
        flat = _flat_targets(p.a, self.key)
        a = p.a.reshape(-1)
        out = np.empty(len(flat), dtype=p.a.dtype)
        for i, f in enumerate(flat):
            p.sim.access("load", p, int(f))
            out[i] = a[f]
        return out.reshape(p.a[self.key].shape)

    def _rmw(self, other, op):
        p = self.parent
        a = p.a.reshape(-1)
        flat = _flat_targets(p.a, self.key)
        o = np.broadcast_to(np.asarray(other), p.a[self.key].shape).ravel()
        for f, v in zip(flat, o):
            p.sim.access("load", p, int(f))
            x = a[f]
            p.sim.access("store", p, int(f))
            a[f] = op(x, v)
        return self

    def __iadd__(self, o):
        return self._rmw(o, lambda x, v: x + v)

    def __isub__(self, o):
        return self._rmw(o, lambda x, v: x - v)

    def __imul__(self, o):
        return self._rmw(o, lambda x, v: x * v)

    def __itruediv__(self, o):
        return self._rmw(o, lambda x, v: x / v)

    def __array__(self, dtype=None, copy=None):
        r = self._load()
        return r.astype(dtype) if dtype is not None else r

    def __getitem__(self, k):
        return self._load()[k]

    def __len__(self):
        return self.shape[0]


for _n in ("add", "sub", "mul", "truediv", "radd", "rsub", "rmul", "rtruediv", "lt", "le", "gt", "ge", "eq", "ne", "neg", "abs"):
    def _mk(n):
        def f(self, *o):
            return getattr(self._load(), f"__{n}__")(*[np.asarray(x) if isinstance(x, (SimView, SimArray)) else x for x in o])
        return f
    setattr(SimView, f"__{_n}__", _mk(_n))


class SimArray:
    """ndarray wrapper.  `hot` arrays (allocated by the kernel, or an argument
    the kernel has stored to inside a parallel region) generate one event per
    element load/store inside a parallel region."""

    def __init__(self, sim, a, hot):
        self.sim, self.a, self.hot = sim, a, hot
        self.aid = len(sim.arrays)
        sim.arrays.append(self)

    shape = property(lambda self: self.a.shape)
    ndim = property(lambda self: self.a.ndim)
    dtype = property(lambda self: self.a.dtype)
    size = property(lambda self: self.a.size)
    T = property(lambda self: self.a.T)

    def __len__(self):
        return len(self.a)

    def _scalar_flat(self, key):
        k = key if isinstance(key, tuple) else (key,)
        if len(k) != self.a.ndim:
            return None
        out = 0
        for i, s in zip(k, self.a.shape):
            if not isinstance(i, (int, np.integer)) or isinstance(i, (bool, np.bool_)):
                return None
            i = int(i)
            if i < 0:
                i += s
            if not 0 <= i < s:
                raise IndexError(f"index {key} out of bounds for shape {self.a.shape} (undefined behaviour in nopython mode)")
            out = out * s + i
        return out

    def __getitem__(self, key):
        sim = self.sim
        if not (sim.in_region and self.hot):
            if sim.in_region:
                self._scalar_flat(key)  # bounds check: numba would read garbage
            return self.a[key]
        f = self._scalar_flat(key)
        if f is not None:
            sim.access("load", self, f)
            return self.a[key]
        return SimView(self, key)

    def __setitem__(self, key, value):
        if isinstance(value, SimView) and value.parent is self:
            return  # a[k] op= v: SimView._rmw already stored
        sim = self.sim
        if isinstance(value, (SimView, SimArray)):
            value = np.asarray(value)
        if not sim.in_region:
            self.a[key] = value
            return
        self.hot = True
        f = self._scalar_flat(key)
        if f is not None:
            sim.access("store", self, f)
            self.a[key] = value
            return
        flat = _flat_targets(self.a, key)
        vals = np.broadcast_to(np.asarray(value), self.a[key].shape).ravel()
        a = self.a.reshape(-1)
        for f, v in zip(flat, vals):
            sim.access("store", self, int(f))
            a[f] = v

    def __array__(self, dtype=None, copy=None):
        return np.asarray(self.a, dtype=dtype)

    def __iter__(self):
        return iter(self.a)

    def __getattr__(self, name):
        if name in ("sim", "a", "hot", "aid"):
            raise AttributeError(name)
        return getattr(self.a, name)


for _n in ("add", "sub", "mul", "truediv", "floordiv", "pow", "radd", "rsub", "rmul", "rtruediv", "lt", "le", "gt", "ge", "eq", "ne", "neg", "abs"):
    def _mk2(n):
        def f(self, *o):
            return getattr(self.a, f"__{n}__")(*[np.asarray(x) if isinstance(x, (SimView, SimArray)) else x for x in o])
        return f
    setattr(SimArray, f"__{_n}__", _mk2(_n))


def unwrap(r):
    if isinstance(r, SimArray):
        return r.a
    if isinstance(r, SimView):
        return np.asarray(r)
    if isinstance(r, tuple):
        return tuple(unwrap(x) for x in r)
    if isinstance(r, list):
        return [unwrap(x) for x in r]
    return r


class NumpyShim:
    ALLOC = {"zeros", "ones", "empty", "full", "zeros_like", "ones_like", "empty_like", "full_like"}

    def __init__(self, sim):
        self._sim = sim

    def __getattr__(self, name):
        f = getattr(np, name)
        if name in self.ALLOC:
            sim = self._sim

            def alloc(*a, **k):
                a = tuple(x.a if isinstance(x, SimArray) else x for x in a)
                return SimArray(sim, f(*a, **k), hot=True)

            return alloc
        if callable(f) and not isinstance(f, type):
            def call(*a, **k):
                a = tuple(np.asarray(x) if isinstance(x, (SimArray, SimView)) else x for x in a)
                k = {kk: (np.asarray(x) if isinstance(x, (SimArray, SimView)) else x) for kk, x in k.items()}
                return f(*a, **k)

            return call
        return f


class NumbaShim:
    def __init__(self, sim, real):
        self._sim, self._real = sim, real

    def __getattr__(self, name):
        if name == "get_thread_id":
            return self._sim.get_thread_id
        if name == "get_num_threads":
            return self._sim.get_num_threads
        if name == "set_parallel_chunksize":
            return lambda k: 0
        if name == "prange":
            return range
        return getattr(self._real, name)


# --------------------------------------------------------------------------
# outlining


def _is_prange(node):
    it = node.iter
    if not isinstance(it, ast.Call):
        return False
    f = it.func
    name = f.id if isinstance(f, ast.Name) else (f.attr if isinstance(f, ast.Attribute) else None)
    return name == "prange"


class _Assigned(ast.NodeVisitor):
    def __init__(self):
        self.plain, self.aug = set(), set()

    def visit_FunctionDef(self, node):
        pass

    def visit_Assign(self, node):
        for t in node.targets:
            self._target(t)
        self.generic_visit(node)

    def visit_AnnAssign(self, node):
        self._target(node.target)
        self.generic_visit(node)

    def visit_AugAssign(self, node):
        if isinstance(node.target, ast.Name):
            self.aug.add(node.target.id)
        self.generic_visit(node)

    def visit_For(self, node):
        self._target(node.target)
        self.generic_visit(node)

    def visit_With(self, node):
        for i in node.items:
            if i.optional_vars is not None:
                self._target(i.optional_vars)
        self.generic_visit(node)

    def _target(self, t):
        if isinstance(t, ast.Name):
            self.plain.add(t.id)
        elif isinstance(t, (ast.Tuple, ast.List)):
            for e in t.elts:
                self._target(e)


class _LoopCtl(ast.NodeTransformer):
    """`continue` at the level of the outlined loop becomes `return`."""

    def visit_For(self, node):
        return node

    def visit_While(self, node):
        return node

    def visit_FunctionDef(self, node):
        return node

    def visit_Continue(self, node):
        return ast.copy_location(ast.Return(value=None), node)

    def visit_Break(self, node):
        raise HarnessError("HARNESS-UNSUPPORTED: `break` in a prange body")


class Outline(ast.NodeTransformer):
    def __init__(self):
        self.count = 0
        self.depth = 0
        self.outer_assigned = set()

    def visit_FunctionDef(self, node):
        if self.depth == 0 and self.count == 0 and not self.outer_assigned:
            a = _Assigned()
            for s in node.body:
                a.visit(s)
            self.outer_assigned = a.plain | a.aug | {x.arg for x in node.args.args}
        self.generic_visit(node)
        return node

    def visit_For(self, node):
        if not _is_prange(node):
            self.generic_visit(node)
            return node
        if self.depth > 0:
            # inner prange: serial in numba
            node.iter.func = ast.Name(id="range", ctx=ast.Load())
            self.generic_visit(node)
            return node
        if node.orelse or not isinstance(node.target, ast.Name):
            raise HarnessError("HARNESS-UNSUPPORTED: prange loop with else-clause or non-name target")
        self.depth += 1
        self.generic_visit(node)
        self.depth -= 1
        name = f"__parfor_body_{self.count}"
        self.count += 1
        a = _Assigned()
        for s in node.body:
            a.visit(s)
        # reduction variables: augmented-assigned, never plainly assigned in the body, defined outside
        red = sorted(v for v in a.aug if v not in a.plain and v in self.outer_assigned)
        body = [_LoopCtl().visit(s) for s in node.body]
        if red:
            body = [ast.Nonlocal(names=red)] + body
        fn = ast.FunctionDef(
            name=name,
            args=ast.arguments(posonlyargs=[], args=[ast.arg(arg=node.target.id)], kwonlyargs=[], kw_defaults=[], defaults=[]),
            body=body, decorator_list=[], type_params=[])
        call = ast.Expr(ast.Call(func=ast.Name(id="__sim_parfor__", ctx=ast.Load()),
                                 args=[ast.Name(id=name, ctx=ast.Load())] + list(node.iter.args), keywords=[]))
        return [fn, call]


class KernelSim:
    """Simulatable version of one njit(parallel=True) kernel."""

    def __init__(self, dispatcher):
        self.dispatcher = dispatcher
        py = getattr(dispatcher, "py_func", dispatcher)
        self.py = py
        try:
            src = textwrap.dedent(inspect.getsource(py))
        except (OSError, TypeError) as e:
            raise HarnessError(f"HARNESS-UNSUPPORTED: no source for kernel {py!r}: {e}")
        tree = ast.parse(src)
        fdef = tree.body[0]
        if not isinstance(fdef, ast.FunctionDef):
            raise HarnessError("HARNESS-UNSUPPORTED: kernel is not a plain function")
        fdef.decorator_list = []
        self.name = fdef.name
        o = Outline()
        tree = o.visit(tree)
        self.nparfor = o.count
        ast.fix_missing_locations(tree)
        self.tree = tree
        self.code = compile(tree, f"<sim:{fdef.name}>", "exec")
        # tuning knobs: integer literals >= 64 in the kernel (chunk sizes, block sizes, thresholds).  A simulated run may
        # shrink them ("buggify") so that small workloads reach the paths that large inputs reach with the shipped values.
        self.knobs = sorted({n.value for n in ast.walk(tree) if isinstance(n, ast.Constant) and type(n.value) is int and n.value >= 64})
        names = {n.id for n in ast.walk(tree) if isinstance(n, ast.Name)}
        # ... and module-level integer constants the kernel refers to (e.g. CHUNK = 16384)
        self.global_knobs = sorted(k for k in names if type(py.__globals__.get(k)) is int and py.__globals__[k] >= 64)
        self.knobs = self.knobs + [py.__globals__[k] for k in self.global_knobs]
        self._knob_code = {}
        self.source_digest = __import__("hashlib").sha256(src.encode()).hexdigest()[:16]
        self.params = list(inspect.signature(py).parameters)

    @staticmethod
    def patched_globals(pyfunc, sim, memo):
        """Globals of a kernel (or of an njit helper it calls) with numpy/numba replaced by the simulator's shims.
        Helpers that are numba dispatchers are replaced by their Python source run under the same shims."""
        import numba
        import types

        g = dict(pyfunc.__globals__)
        for k, v in list(g.items()):
            if v is np:
                g[k] = NumpyShim(sim)
            elif v is numba:
                g[k] = NumbaShim(sim, numba)
            elif v is getattr(numba, "get_thread_id", None):
                g[k] = sim.get_thread_id
            elif v is numba.get_num_threads:
                g[k] = sim.get_num_threads
            elif v is getattr(numba, "set_parallel_chunksize", None):
                g[k] = lambda k_: 0
            elif v is numba.prange:
                g[k] = range
            elif hasattr(v, "py_func") and callable(getattr(v, "py_func", None)) and v.py_func is not pyfunc:
                pf = v.py_func
                if id(pf) not in memo:
                    memo[id(pf)] = None  # recursion guard
                    hg = KernelSim.patched_globals(pf, sim, memo)
                    memo[id(pf)] = types.FunctionType(pf.__code__, hg, pf.__name__, pf.__defaults__, pf.__closure__)
                if memo[id(pf)] is not None:
                    g[k] = memo[id(pf)]
        g["int"] = nb_int
        return g

    def code_for(self, knob_scale):
        if not knob_scale or not any(type(n.value) is int and n.value >= 64 for n in ast.walk(self.tree) if isinstance(n, ast.Constant)):
            return self.code
        if knob_scale not in self._knob_code:
            import copy

            class Shrink(ast.NodeTransformer):
                def visit_Constant(self, node):
                    if type(node.value) is int and node.value >= 64:
                        return ast.copy_location(ast.Constant(value=max(2, node.value // knob_scale)), node)
                    return node

            t = Shrink().visit(copy.deepcopy(self.tree))
            ast.fix_missing_locations(t)
            self._knob_code[knob_scale] = compile(t, f"<sim:{self.name}:knobs/{knob_scale}>", "exec")
        return self._knob_code[knob_scale]

    def run(self, sim, *args, knob_scale=None, **kwargs):
        g = self.patched_globals(self.py, sim, {})
        if knob_scale:
            for k in self.global_knobs:
                g[k] = max(2, g[k] // knob_scale)
        g["__sim_parfor__"] = sim.parfor
        exec(self.code_for(knob_scale), g)
        wrap = lambda x: SimArray(sim, x, hot=False) if isinstance(x, np.ndarray) else x
        args = tuple(wrap(a) for a in args)
        kwargs = {k: wrap(v) for k, v in kwargs.items()}
        try:
            # numba's default error model raises ZeroDivisionError for a float division by zero; numpy scalars would
            # return inf with a warning: make the simulated kernel raise as well
            with np.errstate(divide="raise"):
                res = g[self.name](*args, **kwargs)
        except (HarnessError, KernelError):
            raise
        except FloatingPointError as e:
            raise KernelError(f"ZeroDivisionError: {e}") from e
        except Abort:
            raise sim.error or HarnessError("aborted")
        except Exception as e:
            raise KernelError(f"{type(e).__name__}: {e}") from e
        return unwrap(res)


# --------------------------------------------------------------------------
# helpers for checks


def analyse_dry_run(dry, T, partition):
    """From a recorded T=1 run: per-worker remaining-touch counts and the
    contenders of each element under a static partition of region 0.."""
    touches = {w: {} for w in range(T)}
    cont = {}
    regions = sorted({r for (r, _) in dry.iter_access})
    per_region = {}
    for (r, it), acc in dry.iter_access.items():
        per_region.setdefault(r, {})[it] = acc
    tmp = Sim(T=T, partition=partition)
    for r in regions:
        its = sorted(per_region[r])
        # iterations in a region are 0..n-1 in our kernels; map through position
        n = (max(its) + 1) if its else 0
        blocks = tmp._blocks(n)
        for it in its:
            if blocks is None:
                w = None
            else:
                w = next((k for k, (a, b) in enumerate(blocks) if a <= it < b), 0)
            for kind, aid, flat in per_region[r][it]:
                el = (aid, flat)
                if w is None:
                    for ww in range(T):
                        touches[ww][el] = touches[ww].get(el, 0) + 1
                        cont.setdefault(el, set()).add(ww)
                else:
                    touches[w][el] = touches[w].get(el, 0) + 1
                    cont.setdefault(el, set()).add(w)
    cont = {el: ws for el, ws in cont.items() if len(ws) > 1}
    return touches, cont


def draw_schedule_config(rng, n_iter_hint=16, maxT=8):
    """Swarm draw: thread count, partition kind, scheduler kind."""
    T = rng.choice([1, 2, 2, 2, 3, 3, 4, 4, 5, 8][: max(2, min(10, maxT + 2))])
    T = min(T, maxT)
    pk = rng.random()
    if pk < 0.5:
        part = {"kind": "static-equal"}
    elif pk < 0.75:
        part = {"kind": "static-uneven", "cuts": sorted(round(rng.random(), 3) for _ in range(max(0, T - 1)))}
    else:
        part = {"kind": "dynamic", "k": rng.choice([1, 1, 2, 3, 5])}
    sk = rng.random()
    if T == 1:
        pol = {"kind": "seq"}
    elif sk < 0.45:
        pol = {"kind": "conflict", "q": rng.choice([0.2, 0.5, 0.9]), "p": rng.choice([0.0, 0.02, 0.1]), "on_load": rng.random() < 0.3}
    elif sk < 0.7:
        pol = {"kind": "random", "p": rng.choice([0.02, 0.05, 0.1, 0.3, 0.5])}
    elif sk < 0.9:
        pol = {"kind": "pct", "d": rng.choice([1, 2, 3])}
    else:
        pol = {"kind": "seq"}
    return {"T": T, "partition": part, "policy": pol, "sched_seed": rng.getrandbits(48)}
