"""Selection predicates as JSON specs: built into callables for osyris'
`select=` and evaluated independently on the model."""
import numpy as np

from .ramses import KIND_IV0, TARGET, VALBASE, code_factor, family_of, value_sign


def level_accepts(spec, l):
    k = spec["kind"]
    if k == "le":
        return l <= spec["k"]
    if k == "lt":
        return l < spec["k"]
    if k == "between":
        return spec["a"] < l < spec["b"]
    if k == "eq":
        return l == spec["k"]
    if k == "ne":
        return l != spec["k"]
    if k == "ge_le":
        return spec["a"] <= l <= spec["b"]
    raise ValueError(k)


def level_func(spec):
    k = spec["kind"]
    if k == "le":
        return lambda l: l <= spec["k"]
    if k == "lt":
        return lambda l: l < spec["k"]
    if k == "between":
        return lambda l: (l > spec["a"]) & (l < spec["b"])
    if k == "eq":
        return lambda l: l == spec["k"]
    if k == "ne":
        return lambda l: l != spec["k"]
    if k == "ge_le":
        return lambda l: (l >= spec["a"]) & (l <= spec["b"])
    raise ValueError(k)


def gen_level_pred(rng, levelmin, levelmax):
    """A predicate accepting at least one level in 1..levelmax."""
    for _ in range(20):
        kind = rng.choice(["le", "le", "lt", "between", "eq", "ne", "ge_le"])
        if kind in ("le", "eq", "ne"):
            spec = {"kind": kind, "k": rng.randrange(1, levelmax + 1)}
        elif kind == "lt":
            spec = {"kind": kind, "k": rng.randrange(2, levelmax + 2)}
        else:
            a = rng.randrange(0, levelmax)
            spec = {"kind": kind, "a": a, "b": rng.randrange(a + 1, levelmax + 2)}
        if any(level_accepts(spec, l) for l in range(1, levelmax + 1)):
            return spec
    return {"kind": "le", "k": levelmax}


# ---- value / position predicates: {"var": raw name, "op": "gt"|"lt"|"ge"|"le", "code": threshold in code units}
# position predicates use {"var": "position_x", "op":..., "frac": fraction of the box}


def value_func(spec, world):
    import osyris

    var = spec["var"]
    fam = family_of(var)
    if var.startswith("position") or var == "dx":
        thr = spec["frac"] * world.boxlen * code_factor("length", world.unit_d, world.unit_l, world.unit_t)
    else:
        thr = spec["code"] * code_factor(fam, world.unit_d, world.unit_l, world.unit_t)
    q = thr * osyris.units(TARGET[fam])
    op = spec["op"]
    if op == "gt":
        return lambda v: v > q
    if op == "lt":
        return lambda v: v < q
    if op == "ge":
        return lambda v: v >= q
    return lambda v: v <= q


def value_accepts(spec, world, cell):
    var = spec["var"]
    if var == "dx":
        x = cell["dx"] / world.boxlen
        t = spec["frac"]
    elif var.startswith("position"):
        d = "xyz".index(var[-1])
        x = cell["pos"][d] / world.boxlen
        t = spec["frac"]
    else:
        kind, iv = var_kind(world, var)
        gid = world.gid(cell["level"], cell["cidx"])
        x = value_sign(var, gid) * ((KIND_IV0[kind] + iv + 1) * VALBASE + gid)
        t = spec["code"]
    return {"gt": x > t, "lt": x < t, "ge": x >= t, "le": x <= t}[spec["op"]]


def var_kind(world, var):
    for kind, names in (("hydro", world.hydro_vars), ("grav", world.grav_vars), ("rt", world.rt_vars)):
        if var in names:
            return kind, names.index(var)
    raise KeyError(var)


def gen_value_pred(rng, world_params, ncells_hint=64):
    """Threshold between two stored values (never equal to one)."""
    names = list(world_params["hydro_vars"])
    var = rng.choice(names)
    pool = [("hydro", names)]
    iv = names.index(var)
    # gids run from 0 to (number of cells in the complete tree); pick inside the populated range
    g = rng.randrange(0, max(2, ncells_hint)) + 0.5
    code = float((KIND_IV0["hydro"] + iv + 1) * VALBASE + g)
    if value_sign(var, 1) < 0 and rng.random() < 0.4:
        code = -code  # a threshold among the negative values of a signed quantity
    return {"var": var, "op": rng.choice(["gt", "lt", "ge", "le"]), "code": code}


def gen_dx_pred(rng, levelmin, levelmax):
    """A predicate on the cell size; the threshold lies between the sizes of two consecutive levels."""
    k = rng.randrange(max(0, levelmin - 1), levelmax + 1)
    return {"var": "dx", "op": rng.choice(["gt", "lt", "ge", "le"]), "frac": 0.5 ** (k + 0.5)}


def gen_position_pred(rng, ndim):
    c = rng.choice("xyz"[:ndim])
    return {"var": "position_" + c, "op": rng.choice(["gt", "lt", "ge", "le"]), "frac": round(rng.uniform(0.02, 0.98), 6) + 1.37e-7}


# ---- interval predicates on one axis: {"var": "position_x", "lo": frac|None, "hi": frac|None, "lo_closed": bool, "hi_closed": bool}


def interval_func(spec, world):
    import osyris

    scale = world.boxlen * code_factor("length", world.unit_d, world.unit_l, world.unit_t)
    u = osyris.units("cm")
    lo = None if spec["lo"] is None else spec["lo"] * scale * u
    hi = None if spec["hi"] is None else spec["hi"] * scale * u

    def f(x):
        m = None
        if lo is not None:
            m = (x >= lo) if spec["lo_closed"] else (x > lo)
        if hi is not None:
            h = (x <= hi) if spec["hi_closed"] else (x < hi)
            m = h if m is None else (m & h)
        return m

    return f


def interval_accepts(spec, world, cell):
    d = "xyz".index(spec["var"][-1])
    x = cell["pos"][d] / world.boxlen
    ok = True
    if spec["lo"] is not None:
        ok = ok and (x >= spec["lo"] if spec["lo_closed"] else x > spec["lo"])
    if spec["hi"] is not None:
        ok = ok and (x <= spec["hi"] if spec["hi_closed"] else x < spec["hi"])
    return ok


def gen_interval(rng, axis, levelmax, kind=None):
    """An interval containing at least one finest-level centre; widths from a fraction of the finest cell to the box."""
    n = 2 ** levelmax
    i0 = rng.randrange(n)
    c = (i0 + 0.5) / n
    fine = 1.0 / n
    kind = kind or rng.choice(["tiny", "leaf", "few", "wide", "half-open", "edge"])
    j = lambda: 1.37e-7 * rng.random()
    if kind == "tiny":
        lo, hi = c - fine * rng.uniform(0.05, 0.45), c + fine * rng.uniform(0.05, 0.45)
    elif kind == "leaf":
        w = fine * 2 ** rng.randrange(0, levelmax + 1) * rng.uniform(0.3, 1.2)
        a = rng.random()
        lo, hi = c - a * w, c + (1 - a) * w
    elif kind == "few":
        lo, hi = c - fine * rng.uniform(0.5, 4), c + fine * rng.uniform(0.5, 4)
    elif kind == "wide":
        lo, hi = c - rng.uniform(0.05, 0.6), c + rng.uniform(0.05, 0.6)
    elif kind == "half-open":
        if rng.random() < 0.5:
            lo, hi = None, c + rng.uniform(0.0, 0.5) * rng.choice([fine, 1.0])
        else:
            lo, hi = c - rng.uniform(0.0, 0.5) * rng.choice([fine, 1.0]), None
    else:
        # touching the domain edges
        if rng.random() < 0.5:
            lo, hi = 0.0, max(c, fine * 0.5) + fine * rng.uniform(0.0, 2.0)
        else:
            lo, hi = min(c, 1 - fine * 0.5) - fine * rng.uniform(0.0, 2.0), 1.0
    if lo is not None:
        lo = float(lo) + (j() if lo not in (0.0,) else 0.0)
        lo = min(lo, c - 1e-9) if lo > c else lo
    if hi is not None:
        hi = float(hi) - (j() if hi not in (1.0,) else 0.0)
        hi = max(hi, c + 1e-9) if hi < c else hi
    return {"var": "position_" + axis, "lo": lo, "hi": hi, "lo_closed": rng.random() < 0.5, "hi_closed": rng.random() < 0.5}


# ---- the kind of callable a predicate is handed over as (a selection entry may be any callable)

# "int01": the predicate answers with 0/1 integers instead of booleans (criteria are combined by a product, so this is legal)
# "ndarray": the predicate answers with a plain boolean ndarray (e.g. it compares x.values with bare numbers)
CALLABLE_KINDS = ["function", "function", "function", "partial", "object", "method", "int01", "ndarray"]


def _apply(f, x):
    return f(x)


class _CallableObject:
    def __init__(self, f):
        self.f = f

    def __call__(self, x):
        return self.f(x)

    def method(self, x):
        return self.f(x)


def _apply01(f, x):
    import numpy as np

    r = f(x)
    if hasattr(r, "values"):
        # an Array of booleans becomes an Array of integers (the answer keeps its container type)
        return type(r)(values=np.where(np.asarray(r.values), 1, 0))
    return np.where(np.asarray(r), 1, 0)


def _apply_nd(f, x):
    import numpy as np

    r = f(x)
    return np.asarray(getattr(r, "values", r)).astype(bool)


def as_callable(f, kind):
    """The same predicate as a plain function, a functools.partial, an object with __call__, or a bound method."""
    import functools

    if kind in (None, "function"):
        return f
    if kind == "partial":
        return functools.partial(_apply, f)
    if kind == "object":
        return _CallableObject(f)
    if kind == "method":
        return _CallableObject(f).method
    if kind == "int01":
        return functools.partial(_apply01, f)
    if kind == "ndarray":
        return functools.partial(_apply_nd, f)
    raise ValueError(kind)
