"""Selection predicates as JSON specs: built into callables for osyris'
`select=` and evaluated independently on the model."""
import numpy as np

from .ramses import KIND_IV0, TARGET, VALBASE, code_factor, family_of


def level_accepts(spec, l):
    k = spec["kind"]
    if k == "le":
        return l <= spec["k"]
    if k == "lt":
        return l < spec["k"]
    if k == "between":
        return spec["a"] < l < spec["b"]
    if k == "eq":
        return l == spec["k"]
    if k == "ne":
        return l != spec["k"]
    if k == "ge_le":
        return spec["a"] <= l <= spec["b"]
    raise ValueError(k)


def level_func(spec):
    k = spec["kind"]
    if k == "le":
        return lambda l: l <= spec["k"]
    if k == "lt":
        return lambda l: l < spec["k"]
    if k == "between":
        return lambda l: (l > spec["a"]) & (l < spec["b"])
    if k == "eq":
        return lambda l: l == spec["k"]
    if k == "ne":
        return lambda l: l != spec["k"]
    if k == "ge_le":
        return lambda l: (l >= spec["a"]) & (l <= spec["b"])
    raise ValueError(k)


def gen_level_pred(rng, levelmin, levelmax):
    """A predicate accepting at least one level in 1..levelmax."""
    for _ in range(20):
        kind = rng.choice(["le", "le", "lt", "between", "eq", "ne", "ge_le"])
        if kind in ("le", "eq", "ne"):
            spec = {"kind": kind, "k": rng.randrange(1, levelmax + 1)}
        elif kind == "lt":
            spec = {"kind": kind, "k": rng.randrange(2, levelmax + 2)}
        else:
            a = rng.randrange(0, levelmax)
            spec = {"kind": kind, "a": a, "b": rng.randrange(a + 1, levelmax + 2)}
        if any(level_accepts(spec, l) for l in range(1, levelmax + 1)):
            return spec
    return {"kind": "le", "k": levelmax}


# ---- value / position predicates: {"var": raw name, "op": "gt"|"lt"|"ge"|"le", "code": threshold in code units}
# position predicates use {"var": "position_x", "op":..., "frac": fraction of the box}


def value_func(spec, world):
    import osyris

    var = spec["var"]
    fam = family_of(var)
    if var.startswith("position"):
        thr = spec["frac"] * world.boxlen * code_factor("length", world.unit_d, world.unit_l, world.unit_t)
    else:
        thr = spec["code"] * code_factor(fam, world.unit_d, world.unit_l, world.unit_t)
    q = thr * osyris.units(TARGET[fam])
    op = spec["op"]
    if op == "gt":
        return lambda v: v > q
    if op == "lt":
        return lambda v: v < q
    if op == "ge":
        return lambda v: v >= q
    return lambda v: v <= q


def value_accepts(spec, world, cell):
    var = spec["var"]
    if var.startswith("position"):
        d = "xyz".index(var[-1])
        x = cell["pos"][d] / world.boxlen
        t = spec["frac"]
    else:
        kind, iv = var_kind(world, var)
        x = (KIND_IV0[kind] + iv + 1) * VALBASE + world.gid(cell["level"], cell["cidx"])
        t = spec["code"]
    return {"gt": x > t, "lt": x < t, "ge": x >= t, "le": x <= t}[spec["op"]]


def var_kind(world, var):
    for kind, names in (("hydro", world.hydro_vars), ("grav", world.grav_vars), ("rt", world.rt_vars)):
        if var in names:
            return kind, names.index(var)
    raise KeyError(var)


def gen_value_pred(rng, world_params, ncells_hint=64):
    """Threshold between two stored values (never equal to one)."""
    names = list(world_params["hydro_vars"])
    var = rng.choice(names)
    pool = [("hydro", names)]
    iv = names.index(var)
    # gids run from 0 to (number of cells in the complete tree); pick inside the populated range
    g = rng.randrange(0, max(2, ncells_hint)) + 0.5
    return {"var": var, "op": rng.choice(["gt", "lt", "ge", "le"]), "code": float((KIND_IV0["hydro"] + iv + 1) * VALBASE + g)}


def gen_position_pred(rng, ndim):
    c = rng.choice("xyz"[:ndim])
    return {"var": "position_" + c, "op": rng.choice(["gt", "lt", "ge", "le"]), "frac": round(rng.uniform(0.02, 0.98), 6) + 1.37e-7}
