"""Engine W: a simulated RAMSES cluster (ncpu ranks dumping one snapshot) as a
stub writer, plus the ground-truth octree it was written from (DESIGN.md 2.3).

The writer follows the RAMSES Fortran output routines (output_amr / hydro /
poisson / rt / part, sink csv, info file), *not* osyris' offset arithmetic.
A world is a pure function of its parameter dict (all per-cell decisions are
hashes of (wseed, level, cell index)), so a replay file only needs the dict,
and pruning a subtree or dropping a rank does not reshuffle the rest.
"""
import math
import os
import struct

import numpy as np

from .core import H
from .hilbert_ref import hilbert3d

VALBASE = 2 ** 22          # value of variable iv in cell gid: (iv + 1) * VALBASE + gid
GHOST_TAG = 0.5            # ghost copies carry value + 0.5 (true values are integers)
BOUND_TAG = 0.25           # copies in boundary regions carry value + 0.25


def value_sign(name, gid):
    """Vector-like quantities are stored with either sign (a third of the cells negative); scalars stay positive."""
    if family_of(name) in ("velocity", "momentum", "B", "acceleration") and gid % 3 == 1:
        return -1.0
    return 1.0
KIND_IV0 = {"hydro": 0, "grav": 40, "rt": 48}


def rec(*payloads):
    b = b"".join(payloads)
    return struct.pack("<i", len(b)) + b + struct.pack("<i", len(b))


def I(*v):
    return np.asarray(v, dtype="<i4").ravel().tobytes()


def D(*v):
    return np.asarray(v, dtype="<f8").ravel().tobytes()


def u01(*parts):
    return (H(*parts) >> 11) / float(1 << 53)


def cell_offsets(ndim):
    out = []
    for ind in range(2 ** ndim):
        iz = ind // 4
        iy = (ind - 4 * iz) // 2
        ix = ind - 2 * iy - 4 * iz
        out.append((ix, iy, iz)[:ndim])
    return out


class Oct:
    __slots__ = ("level", "idx", "owner", "refined", "cells_cpu", "order")

    def __init__(self, level, idx):
        self.level, self.idx = level, idx
        self.owner = None
        self.refined = None
        self.cells_cpu = None
        self.order = 0


DEFAULTS = {
    "wseed": 1, "ndim": 3, "ncpu": 2, "levelmin": 1, "levelmax": 3, "refine_p": 0.4, "prune": [], "maxcells": 4000,
    "nboundary": 0, "bound_axes": [1, 0, 0], "noutput": 3, "key_quad": False, "ordering": "planar", "bound_frac": None,
    "hydro_vars": ["density", "velocity_x", "velocity_y", "velocity_z", "pressure"], "grav": True, "rt_vars": None,
    "units": [1.0, 1.0, 1.0], "boxlen": 1.0, "time": 0.25, "ghost_p": 0.5, "nout": 1, "siblings": [],
    "part": None, "sink": None, "gamma": 1.4,
}


class World:
    def __init__(self, params):
        p = dict(DEFAULTS)
        p.update(params)
        self.p = p
        self.ndim, self.ncpu = p["ndim"], p["ncpu"]
        self.levelmin, self.levelmax = p["levelmin"], p["levelmax"]
        self.two = 2 ** self.ndim
        self.offs = cell_offsets(self.ndim)
        self.nb = p["nboundary"]
        self.nxyz = [1, 1, 1]
        if self.nb > 0:
            for d in range(self.ndim):
                if p["bound_axes"][d]:
                    self.nxyz[d] = 3
            if self.nxyz == [1, 1, 1]:
                self.nxyz[0] = 3
        self.xbound = [float(n // 2) for n in self.nxyz]
        self.hydro_vars = list(p["hydro_vars"])
        self.grav_vars = (["grav_potential"] + ["grav_acceleration_" + c for c in "xyz"[: self.ndim]]) if p["grav"] else []
        self.rt_vars = list(p["rt_vars"]) if p["rt_vars"] else []
        self.unit_d, self.unit_l, self.unit_t = p["units"]
        self.boxlen = p["boxlen"]
        self.hilbert = p["ordering"] == "hilbert"
        self._setup_decomposition()
        self._build_tree()

    # ---- domain decomposition -------------------------------------------------
    def _setup_decomposition(self):
        L = self.levelmax
        if self.hilbert:
            kmax = (2 ** self.ndim) ** (L + 1) if self.ndim != 2 else None
            if self.ndim == 2:
                raise ValueError("2-D hilbert worlds are not generated (curve not reproducible here)")
            fr = self.p["bound_frac"]
            if self.p.get("bound_keys"):
                # explicit interior keys (e.g. aligned with coarse-cube key ranges)
                ks = sorted({int(k) for k in self.p["bound_keys"] if 0 < int(k) < kmax})[: self.ncpu - 1]
                fr = [k / kmax for k in ks] + [1.0 - 1e-9] * (self.ncpu - 1 - len(ks))
            if fr is None:
                fr = sorted(u01(self.p["wseed"], "cut", c) for c in range(self.ncpu - 1))
            cuts = []
            prev = 0
            for c, f in enumerate(fr[: self.ncpu - 1]):
                k = min(kmax - (self.ncpu - 1 - c), max(prev + 1, int(f * kmax)))
                cuts.append(k)
                prev = k
            self.bound_key = [0] + cuts + [kmax]
        else:
            self.bound_key = list(range(self.ncpu + 1))

    def cpu_of_cell(self, level, cidx):
        """cpu_map of a cell = domain of the Hilbert key of its centre at levelmax+1 bits (RAMSES cmp_cpumap)."""
        if self.ncpu == 1:
            return 1
        if self.hilbert:
            L = self.levelmax
            cc = [(2 * ci + 1) * 2 ** (L - level) for ci in cidx]
            if self.ndim == 3:
                key = hilbert3d(cc[0], cc[1], cc[2], L + 1)
            else:
                key = cc[0]  # hilbert1d is the identity
            lo, hi = 0, self.ncpu
            while hi - lo > 1:
                mid = (lo + hi) // 2
                if self.bound_key[mid] <= key:
                    lo = mid
                else:
                    hi = mid
            return lo + 1
        return 1 + int(u01(self.p["wseed"], "cpu", level, *cidx) * self.ncpu) % self.ncpu

    # ---- tree -----------------------------------------------------------------
    def _build_tree(self):
        p = self.p
        L = self.levelmax
        prune = {tuple(x) for x in p["prune"]}
        self.levels = {l: [] for l in range(1, L + 1)}
        root = Oct(1, (0,) * self.ndim)
        # the level-1 oct belongs to the rank owning the coarse cell, i.e. the key of the box centre
        root.owner = self.cpu_of_cell(0, (0,) * self.ndim) if self.hilbert else 1
        self.levels[1].append(root)
        ncells = 0
        for l in range(1, L + 1):
            for o in self.levels[l]:
                o.refined = [False] * self.two
                o.cells_cpu = []
                o.order = H(p["wseed"], "order", l, *o.idx)
                for ind in range(self.two):
                    cidx = tuple(2 * o.idx[d] + self.offs[ind][d] for d in range(self.ndim))
                    o.cells_cpu.append(self.cpu_of_cell(l, cidx))
                    ncells += 1
                    if l < L:
                        must = l < self.levelmin
                        want = u01(p["wseed"], "ref", l, *cidx) < p["refine_p"] and ncells < p["maxcells"]
                        chain = p.get("chain")
                        if chain and all(cidx[d] == int(chain[d] * 2 ** l) for d in range(self.ndim)):
                            want = True  # a zoom: the cell containing the target point is refined down to levelmax
                        if (l,) + cidx in prune:
                            want = False
                        if must or want:
                            o.refined[ind] = True
                            child = Oct(l + 1, cidx)
                            child.owner = o.cells_cpu[ind]
                            self.levels[l + 1].append(child)
        self.ncells_total = ncells

    def gid(self, level, cidx):
        n = 2 ** level
        off = sum((2 ** k) ** self.ndim for k in range(1, level))
        lin = 0
        for d in reversed(range(self.ndim)):
            lin = lin * n + cidx[d]
        return off + lin

    def value(self, kind, iv, level, cidx):
        gid = self.gid(level, cidx)
        name = {"hydro": self.hydro_vars, "grav": self.grav_vars, "rt": self.rt_vars}[kind][iv]
        return value_sign(name, gid) * float((KIND_IV0[kind] + iv + 1) * VALBASE + gid)

    def cells(self):
        """Every cell of the tree (leaf or refined): dict rows."""
        out = []
        for l, octs in self.levels.items():
            dx = 0.5 ** l
            for o in octs:
                for ind in range(self.two):
                    cidx = tuple(2 * o.idx[d] + self.offs[ind][d] for d in range(self.ndim))
                    out.append({"level": l, "cidx": cidx, "cpu": o.owner, "refined": o.refined[ind],
                                "pos": [(c + 0.5) * dx * self.boxlen for c in cidx], "dx": dx * self.boxlen,
                                "cell_cpu": o.cells_cpu[ind]})
        return out

    def leaves(self, lmax=None):
        """Ground truth of a load with level cap lmax: cells of the tree truncated at lmax."""
        lmax = lmax or self.levelmax
        return [c for c in self.cells() if c["level"] <= lmax and (not c["refined"] or c["level"] == lmax)]

    def var_values(self, cell):
        out = {}
        for kind, names in (("hydro", self.hydro_vars), ("grav", self.grav_vars), ("rt", self.rt_vars)):
            for iv, name in enumerate(names):
                out[name] = self.value(kind, iv, cell["level"], cell["cidx"])
        return out

    # ---- what each rank writes --------------------------------------------------
    def file_grids(self, cpu):
        """(level, domain) -> [(oct, is_ghost)] stored in this cpu's files; domains > ncpu are boundaries."""
        p = self.p
        out = {}
        for l, octs in self.levels.items():
            for dom in range(1, self.ncpu + 1):
                mine = sorted((o for o in octs if o.owner == dom), key=lambda o: o.order)
                if dom != cpu:
                    mine = [o for o in mine if u01(p["wseed"], "ghost", cpu, l, *o.idx) < p["ghost_p"]]
                out[(l, dom)] = [(o, dom != cpu) for o in mine]
            for b in range(self.nb):
                n = int(u01(p["wseed"], "nbound", cpu, l, b) * 3)
                if l == 1:
                    n = max(n, 1)
                fake = []
                for k in range(n):
                    o = Oct(l, tuple(int(u01(p["wseed"], "bidx", cpu, l, b, k, d) * 2 ** (l - 1)) for d in range(self.ndim)))
                    o.owner = -(b + 1)
                    o.refined = [u01(p["wseed"], "bref", cpu, l, b, k, ind) < 0.3 for ind in range(self.two)]
                    o.cells_cpu = [1] * self.two
                    fake.append((o, False))
                out[(l, self.ncpu + 1 + b)] = fake
        return out

    def _oct_xg(self, o, dd, dom):
        osz = 0.5 ** (o.level - 1)
        x = (o.idx[dd] + 0.5) * osz + self.xbound[dd]
        if dom > self.ncpu:
            # boundary octs live outside the box along the first boundary axis
            ax = next(d for d in range(self.ndim) if self.nxyz[d] == 3)
            if dd == ax:
                b = dom - self.ncpu - 1
                x = (o.idx[dd] + 0.5) * osz + (0.0 if b % 2 == 0 else 2.0)
        return x

    def _cellval(self, kind, iv, o, ind, ghost, dom):
        cidx = tuple(2 * o.idx[d] + self.offs[ind][d] for d in range(self.ndim))
        v = self.value(kind, iv, o.level, cidx)
        if dom > self.ncpu:
            return v + BOUND_TAG
        return v + (GHOST_TAG if ghost else 0.0)

    def write(self, path):
        p = self.p
        num = str(p["nout"]).zfill(5)
        d = os.path.join(path, "output_" + num)
        os.makedirs(d, exist_ok=True)
        L, ncpu, nb, ndim = self.levelmax, self.ncpu, self.nb, self.ndim
        self._write_info(d, num)
        self._write_descriptor(os.path.join(d, "hydro_file_descriptor.txt"), self.hydro_vars)
        if self.rt_vars and p.get("rt_descriptor", True):
            self._write_descriptor(os.path.join(d, "rt_file_descriptor.txt"), self.rt_vars)
        ordering = b"hilbert" if self.hilbert else p["ordering"].encode()
        for cpu in range(1, ncpu + 1):
            grids = self.file_grids(cpu)
            numbl = np.zeros((ncpu, L), dtype="<i4")
            numbb = np.zeros((max(nb, 1), L), dtype="<i4")
            for (l, dom), octs in grids.items():
                if dom <= ncpu:
                    numbl[dom - 1, l - 1] = len(octs)
                else:
                    numbb[dom - ncpu - 1, l - 1] = len(octs)
            ncoarse = int(np.prod(self.nxyz))
            nout_ = p["noutput"]
            a = [rec(I(ncpu)), rec(I(ndim)), rec(I(*self.nxyz)), rec(I(L)), rec(I(100000)), rec(I(nb)),
                 rec(I(sum(len(v) for v in grids.values()))), rec(D(self.boxlen)),
                 rec(I(nout_, 1, 1)), rec(D(*np.arange(nout_) * 0.1)), rec(D(*np.arange(nout_) * 0.2)),
                 rec(D(p["time"])), rec(D(*np.linspace(0.1, 0.2, L))), rec(D(*np.linspace(0.3, 0.4, L))),
                 rec(I(7, 3)), rec(D(0.1, 0.2, 0.3)), rec(D(*[0.5] * 7)), rec(D(*[0.25] * 5)), rec(D(1e-3)),
                 rec(np.full((L, ncpu), 11, "<i4").tobytes()),  # headl
                 rec(np.full((L, ncpu), 12, "<i4").tobytes()),  # taill
                 rec(np.ascontiguousarray(numbl.T).tobytes()),  # numbl(1:ncpu,1:L) column-major
                 rec(np.full((L, 10), 13, "<i4").tobytes())]    # numbtot(1:10,1:L)
            if nb > 0:
                a.append(rec(np.full((L, nb), 14, "<i4").tobytes()))
                a.append(rec(np.full((L, nb), 15, "<i4").tobytes()))
                a.append(rec(np.ascontiguousarray(numbb[:nb].T).tobytes()))
            a.append(rec(I(1, 2, 3, 4, 5)))
            a.append(rec(ordering.ljust(128)))
            if p["key_quad"]:
                a.append(rec(b"\x07" * (16 * (ncpu + 1))))
            else:
                a.append(rec(D(*[float(k) for k in self.bound_key])))
            a.append(rec(I(*[1] * ncoarse)))
            a.append(rec(I(*[0] * ncoarse)))
            a.append(rec(I(*[1] * ncoarse)))
            h = [rec(I(ncpu)), rec(I(len(self.hydro_vars))), rec(I(ndim)), rec(I(L)), rec(I(nb)), rec(D(p["gamma"]))]
            g = [rec(I(ncpu)), rec(I(ndim + 1)), rec(I(L)), rec(I(nb))]
            r = [rec(I(ncpu)), rec(I(len(self.rt_vars))), rec(I(ndim)), rec(I(L)), rec(I(nb)), rec(D(p["gamma"]))]
            for l in range(1, L + 1):
                for dom in range(1, ncpu + nb + 1):
                    octs = grids[(l, dom)]
                    n = len(octs)
                    for f in (h, g, r):
                        f.append(rec(I(l)))
                        f.append(rec(I(n)))
                    if n == 0:
                        continue
                    a.append(rec(I(*range(101, 101 + n))))      # ind_grid
                    a.append(rec(I(*[21] * n)))                  # next
                    a.append(rec(I(*[22] * n)))                  # prev
                    for dd in range(ndim):
                        a.append(rec(D(*[self._oct_xg(o, dd, dom) for o, gh in octs])))
                    a.append(rec(I(*[23] * n)))                  # father
                    for _ in range(2 * ndim):
                        a.append(rec(I(*[24] * n)))              # nbor
                    for ind in range(self.two):                  # son: arbitrary for ghosts (here: the true flag or a fabricated one)
                        sons = []
                        for kk, (o, gh) in enumerate(octs):
                            flag = o.refined[ind]
                            if gh and u01(p["wseed"], "gson", cpu, l, kk, ind) < 0.3:
                                flag = not flag
                            sons.append((900 + kk) if flag else 0)
                        a.append(rec(I(*sons)))
                    for ind in range(self.two):
                        a.append(rec(I(*[int(o.cells_cpu[ind]) for o, gh in octs])))
                    for ind in range(self.two):
                        a.append(rec(I(*[0] * n)))               # flag1
                    for ind in range(self.two):
                        for iv in range(len(self.hydro_vars)):
                            h.append(rec(D(*[self._cellval("hydro", iv, o, ind, gh, dom) for o, gh in octs])))
                        for iv in range(len(self.grav_vars)):
                            g.append(rec(D(*[self._cellval("grav", iv, o, ind, gh, dom) for o, gh in octs])))
                        for iv in range(len(self.rt_vars)):
                            r.append(rec(D(*[self._cellval("rt", iv, o, ind, gh, dom) for o, gh in octs])))
            ext = ".out" + str(cpu).zfill(5)
            with open(os.path.join(d, f"amr_{num}{ext}"), "wb") as f:
                f.write(b"".join(a))
            with open(os.path.join(d, f"hydro_{num}{ext}"), "wb") as f:
                f.write(b"".join(h))
            if p["grav"]:
                with open(os.path.join(d, f"grav_{num}{ext}"), "wb") as f:
                    f.write(b"".join(g))
            if self.rt_vars:
                with open(os.path.join(d, f"rt_{num}{ext}"), "wb") as f:
                    f.write(b"".join(r))
            if p["part"] is not None:
                with open(os.path.join(d, f"part_{num}{ext}"), "wb") as f:
                    f.write(self._part_file(cpu))
        if p["part"] is not None and p["part"].get("descriptor", True):
            self._write_part_descriptor(os.path.join(d, "part_file_descriptor.txt"))
        if p["sink"] is not None:
            self._write_sink(os.path.join(d, f"sink_{num}.csv"))
        for s in p["siblings"]:
            sd = os.path.join(path, "output_" + str(s).zfill(5))
            os.makedirs(sd, exist_ok=True)
            with open(os.path.join(sd, f"info_{str(s).zfill(5)}.txt"), "w") as f:
                f.write("ncpu        =          1\nndim        =          1\n")
        return d

    def _write_info(self, d, num):
        p = self.p
        with open(os.path.join(d, f"info_{num}.txt"), "w") as f:
            f.write(f"ncpu        ={self.ncpu:11d}\nndim        ={self.ndim:11d}\n")
            f.write(f"levelmin    ={self.levelmin:11d}\nlevelmax    ={self.levelmax:11d}\n")
            f.write("ngridmax    =     100000\nnstep_coarse=          7\n\n")
            f.write(f"boxlen      ={self.boxlen:23.15E}\ntime        ={p['time']:23.15E}\n")
            f.write(f"aexp        ={1.0:23.15E}\nH0          ={1.0:23.15E}\n")
            f.write(f"omega_m     ={1.0:23.15E}\nomega_l     ={0.0:23.15E}\n")
            f.write(f"omega_k     ={0.0:23.15E}\nomega_b     ={0.0:23.15E}\n")
            f.write(f"unit_l      ={self.unit_l:23.15E}\nunit_d      ={self.unit_d:23.15E}\n")
            f.write(f"unit_t      ={self.unit_t:23.15E}\n\n")
            f.write(f"ordering type={'hilbert' if self.hilbert else p['ordering']}\n")
            if self.hilbert:
                f.write("   DOMAIN   ind_min                 ind_max\n")
                for c in range(self.ncpu):
                    f.write(f"{c + 1:8d}{float(self.bound_key[c]):23.15E}{float(self.bound_key[c + 1]):23.15E}\n")

    @staticmethod
    def _write_descriptor(fname, names, types=None):
        with open(fname, "w") as f:
            f.write("# version:  1\n# ivar, variable_name, variable_type\n")
            for i, v in enumerate(names):
                f.write(f"  {i + 1}, {v}, {types[i] if types else 'd'}\n")

    # ---- particles --------------------------------------------------------------
    def part_columns(self):
        """[(name, type)] of the particle descriptor."""
        return [tuple(c) for c in self.p["part"]["columns"]]

    def part_counts(self):
        return list(self.p["part"]["counts"])[: self.ncpu] + [0] * max(0, self.ncpu - len(self.p["part"]["counts"]))

    def part_value(self, icol, typ, pid):
        # values of either sign in every type (tracer families are negative bytes; ids and velocities may be negative)
        if typ == "d":
            return (float((icol + 1) * 65536 + pid) + 0.25) * (-1.0 if pid % 4 == 1 else 1.0)
        if typ == "i":
            return int((icol + 1) * 4096 + pid) * (-1 if pid % 3 == 2 else 1)
        return int((pid * 7 + icol) % 200) - 100  # 'b': one signed byte, -100..99

    def part_ids(self, cpu):
        cnt = self.part_counts()
        start = sum(cnt[: cpu - 1])
        ids = list(range(start, start + cnt[cpu - 1]))
        # arbitrary on-disk order inside a file
        ids.sort(key=lambda i: H(self.p["wseed"], "pord", i))
        return ids

    def _part_file(self, cpu):
        pp = self.p["part"]
        ids = self.part_ids(cpu)
        n = len(ids)
        hl = pp.get("header_lengths", [16, 8, 8, 8, 4])
        if pp.get("header_lengths_by_cpu"):
            # (the unused header records need not have the same size in every file of one output)
            hl = pp["header_lengths_by_cpu"][(cpu - 1) % len(pp["header_lengths_by_cpu"])]
        out = [rec(I(self.ncpu)), rec(I(self.ndim)), rec(I(n))]
        for k in range(5):
            out.append(rec(bytes([(k * 37 + j) % 251 for j in range(hl[k])])))
        for icol, (name, typ) in enumerate(self.part_columns()):
            vals = [self.part_value(icol, typ, pid) for pid in ids]
            if typ == "d":
                out.append(rec(np.asarray(vals, dtype="<f8").tobytes()))
            elif typ == "i":
                out.append(rec(np.asarray(vals, dtype="<i4").tobytes()))
            else:
                out.append(rec(np.asarray(vals, dtype="i1").tobytes()))
        return b"".join(out)

    def _write_part_descriptor(self, fname):
        cols = self.part_columns()
        self._write_descriptor(fname, [c[0] for c in cols], [c[1] for c in cols])

    # ---- sinks --------------------------------------------------------------------
    def sink_table(self):
        """(names, unit expressions, rows) of the sink csv; None if the file is empty."""
        sp = self.p["sink"]
        if sp.get("empty"):
            return None
        cols = [tuple(c) for c in sp["columns"]]
        rows = []
        # rows in no particular order of any column (each column has its own permutation of distinct values)
        n = sp["nsink"]
        for r in range(n):
            row = []
            for ic, (name, u) in enumerate(cols):
                k = sorted(range(n), key=lambda q: H(self.p["wseed"], "sinkperm", ic, q)).index(r)
                row.append(float(k + 1) if name == "id" else (ic + 1) * 10.0 + k + 0.5)
            rows.append(row)
        return [c[0] for c in cols], [c[1] for c in cols], rows

    def _write_sink(self, fname):
        t = self.sink_table()
        with open(fname, "w") as f:
            if t is None:
                return
            names, units, rows = t
            f.write(" # " + ",".join(names) + "\n")
            f.write(" # " + ",".join(units) + "\n")
            for row in rows:
                f.write(",".join(f"{v:.10e}" if n != "id" else str(int(v)) for n, v in zip(names, row)) + "\n")


# --------------------------------------------------------------------------
# independent table: physical meaning of code units (DESIGN.md C01)

TARGET = {
    "density": "g/cm**3", "velocity": "cm/s", "momentum": "g/cm**2/s", "B": "G", "acceleration": "cm/s**2",
    "potential": "cm**2/s**2", "energy": "erg/cm**3", "time": "s", "length": "cm", "mass": "g", "temperature": "K", "none": "",
}


def family_of(name):
    if name == "density":
        return "density"
    if name.startswith("velocity"):
        return "velocity"
    if name.startswith("momentum"):
        return "momentum"
    if name.startswith("B_"):
        return "B"
    if name.startswith("grav_acceleration"):
        return "acceleration"
    if name == "grav_potential":
        return "potential"
    if name in ("pressure", "thermal_pressure", "internal_energy", "energy") or name.startswith("radiative_energy"):
        return "energy"
    if name == "temperature":
        return "temperature"
    if name in ("dx", "x", "y", "z") or name.startswith("position"):
        return "length"
    if name == "mass":
        return "mass"
    if name == "time":
        return "time"
    return "none"


def code_factor(family, unit_d, unit_l, unit_t):
    """value in TARGET[family] of one code unit"""
    v = unit_l / unit_t
    return {
        "density": unit_d, "velocity": v, "momentum": unit_d * v, "B": math.sqrt(4.0 * math.pi * unit_d * v * v),
        "acceleration": unit_l / unit_t ** 2, "potential": v * v, "energy": unit_d * v * v, "time": unit_t,
        "length": unit_l, "mass": unit_d * unit_l ** 3, "temperature": 1.0, "none": 1.0,
    }[family]


def physical(arr_values, unit, family):
    """Observed values expressed in TARGET[family] through pint directly (not through Array.to).
    Raises pint DimensionalityError when the label has the wrong dimension."""
    import osyris

    q = (1.0 * unit).to(osyris.units(TARGET[family]))
    return np.asarray(arr_values, dtype=float) * q.magnitude
