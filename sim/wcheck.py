"""Shared pieces of the Engine-W checks (C01, C04, C12, C13, C14, C15): world
generation (swarm), loading through the real osyris.io under the fs seam, and
comparison of a loaded mesh group with the world's ground truth."""
import io
import contextlib
import math
import os
import shutil

import numpy as np

from . import core
from .core import HarnessError
from .fsseam import FsSeam
from .ramses import BOUND_TAG, GHOST_TAG, VALBASE, World, code_factor, family_of, physical, value_sign

HYDRO_POOLS = [
    ["density", "velocity_x", "velocity_y", "velocity_z", "pressure"],
    ["density", "velocity_x", "velocity_y", "velocity_z", "B_left_x", "B_left_y", "B_left_z", "B_right_x", "B_right_y", "B_right_z", "pressure"],
    ["density", "velocity_x", "velocity_y", "velocity_z", "B_x_left", "B_y_left", "B_z_left", "B_x_right", "B_y_right", "B_z_right", "thermal_pressure", "scalar_00"],
    ["density", "momentum_x", "momentum_y", "momentum_z", "internal_energy", "metallicity"],
    ["density", "velocity_x", "pressure"],
    ["density", "pressure"],
    ["density", "velocity_x", "velocity_y", "temperature", "scalar_01", "scalar_02"],
    ["velocity_x", "velocity_y", "velocity_z", "oxygen", "flux_x"],
    ["density", "velocity_x", "velocity_y", "velocity_z", "radiative_energy_1", "pressure", "taxi"],
    # component names with further letters 'x' after (or before) the component letter
    ["density", "mix_x_ext", "mix_y_ext", "mix_z_ext", "velocity_x_max", "velocity_y_max", "velocity_z_max", "pressure"],
    ["density", "flux_x_axial", "flux_y_axial", "flux_z_axial", "extra_x", "extra_y", "extra_z", "xenon_x_mix", "xenon_y_mix", "xenon_z_mix"],
    # no variable called "density" (the derived cell mass cannot be computed; everything else can)
    ["rho", "velocity_x", "velocity_y", "velocity_z", "B_x_left", "B_y_left", "B_z_left", "B_x_right", "B_y_right", "B_z_right", "pressure"],
    ["rho", "pressure", "metallicity"],
    # names that are proper prefixes of other names (unpadded numbering)
    ["density", "scalar_1", "scalar_10", "scalar_11", "radiative_energy_1", "radiative_energy_10", "thermal_pressure", "thermal_pressure_old"],
]
RT_POOLS = [["photon_density_1", "photon_flux_1_x", "photon_flux_1_y", "photon_flux_1_z"], ["photon_density_1", "photon_density_2"],
            ["rt_a", "rt_b", "rt_c"]]


def sig6(x):
    return float(f"{x:.5e}")


def gen_world_params(rng, tier, hilbert=None, need_part=False, need_sink=False, max_cells=None, force_ndim=None, min_levels=1):
    big = tier == "thorough"
    ndim = force_ndim or rng.choice([1, 2, 2, 3, 3, 3])
    ncpu = rng.choice([1, 2, 2, 3, 3, 4, 5, 8])
    lcap = {1: 9, 2: 7, 3: 5}[ndim]
    levelmin = rng.choice([1, 1, 2, 3])
    levelmax = max(levelmin, min_levels, rng.randrange(levelmin, lcap + 1))
    if ndim == 3 and levelmax > 4 and not big:
        levelmax = rng.choice([3, 4, 4, 5])
        levelmin = min(levelmin, levelmax)
    maxcells = max_cells or rng.choice([200, 600, 1500] + ([4000] if big else []))
    if hilbert is None:
        hilbert = ndim != 2 and rng.random() < 0.4
    nb = rng.choice([0, 0, 0, 1, 2, 3])
    axes = [1, 0, 0]
    if nb:
        axes = [int(rng.random() < 0.6) for _ in range(3)]
    p = {
        "wseed": rng.getrandbits(40), "ndim": ndim, "ncpu": ncpu, "levelmin": levelmin, "levelmax": levelmax,
        "refine_p": rng.choice([0.1, 0.25, 0.4, 0.55, 0.7]), "prune": [], "maxcells": maxcells,
        "nboundary": nb, "bound_axes": axes, "noutput": rng.choice([1, 2, 3, 5, 12]), "key_quad": rng.random() < 0.3,
        "ordering": "hilbert" if hilbert else rng.choice(["planar", "angular", "ksection"]), "bound_frac": None,
        "hydro_vars": list(rng.choice(HYDRO_POOLS)), "grav": rng.random() < 0.6,
        "rt_vars": list(rng.choice(RT_POOLS)) if rng.random() < 0.3 else None,
        "units": [sig6(10 ** rng.uniform(-30, 30)), sig6(10 ** rng.uniform(-30, 30)), sig6(10 ** rng.uniform(-30, 30))] if rng.random() < 0.7 else [1.0, 1.0, 1.0],
        "boxlen": rng.choice([1.0, 1.0, 0.5, 4.0, 37.5]), "time": sig6(rng.uniform(0.0, 10.0)),
        "ghost_p": rng.choice([0.0, 0.3, 0.6, 1.0]), "nout": rng.choice([1, 2, 7, 42, 118]), "siblings": [], "part": None, "sink": None,
    }
    if hilbert:
        kind = rng.choice(["random", "random", "tiny", "clustered", "aligned"])
        if kind == "aligned" and ndim == 3:
            # bound keys on the boundaries of coarse-cube key ranges (multiples of 8**(levelmax+1-b))
            b = rng.choice([1, 2, 2, 3])
            step = 8 ** max(0, levelmax + 1 - b)
            nmul = 8 ** min(b, levelmax + 1)
            ks = sorted(rng.sample(range(1, nmul), min(ncpu - 1, nmul - 1)))
            p["bound_keys"] = [k * step for k in ks]
        elif kind == "random" or kind == "aligned":
            p["bound_frac"] = sorted(rng.random() for _ in range(ncpu - 1))
        elif kind == "tiny":
            base = rng.random() * 0.9
            p["bound_frac"] = sorted(base + 1e-3 * k * rng.random() for k in range(ncpu - 1))
        else:
            c = rng.random()
            p["bound_frac"] = sorted(min(0.999, max(0.001, c + rng.uniform(-0.05, 0.05))) for _ in range(ncpu - 1))
    if rng.random() < 0.3:
        p["siblings"] = sorted(set(rng.randrange(1, p["nout"]) for _ in range(rng.choice([1, 2, 3]))) if p["nout"] > 1 else set())
    if need_part or rng.random() < 0.25:
        p["part"] = gen_part(rng, ndim, ncpu)
    if need_sink or rng.random() < 0.25:
        p["sink"] = gen_sink(rng, ndim)
    return p


PART_EXTRA = [("mass", "d"), ("identity", "i"), ("levelp", "i"), ("family", "b"), ("tag", "b"), ("birth_time", "d"), ("metallicity", "d"), ("age_x", "d")]


def gen_part(rng, ndim, ncpu):
    cols = [("position_" + c, "d") for c in "xyz"[:ndim]]
    if rng.random() < 0.8:
        cols += [("velocity_" + c, "d") for c in "xyz"[:ndim]]
    extra = [c for c in PART_EXTRA if rng.random() < 0.6]
    cols += extra
    if ndim == 2 and rng.random() < 0.2:
        # a 2.5-D run: a third velocity (or position) component is stored although the mesh has two dimensions; it stays a scalar member
        cols.append((rng.choice(["velocity_z", "velocity_z", "position_z"]), "d"))
    if rng.random() < 0.3:
        rng.shuffle(cols)
    if len(cols) < 2:
        cols.append(("mass", "d"))
    if rng.random() < 0.3:
        # any on-disk type for any variable: dimensional quantities stored as integers or bytes
        cols = [(n, rng.choice(["i", "b", "d"]) if rng.random() < 0.4 else t) for n, t in cols]
    if rng.random() < 0.15:
        cols = [(n, rng.choice(["d", "i"]) if t == "b" or (t == "i" and rng.random() < 0.5) else t) for n, t in cols]
    counts = [rng.choice([0, 0, 1, 2, 3, 5, 9, 30]) for _ in range(ncpu)]
    out = {"columns": [list(c) for c in cols], "counts": counts, "descriptor": True,
           "header_lengths": [rng.choice([4, 8, 16, 32, 13, 10]), rng.choice([4, 8, 1, 6]), rng.choice([8, 8, 10, 0]), rng.choice([8, 8, 5]), rng.choice([4, 8, 2])]}
    if ncpu > 1 and rng.random() < 0.2:
        out["header_lengths_by_cpu"] = [[rng.choice([4, 8, 16, 32, 13, 10]), rng.choice([4, 8, 1, 6]), rng.choice([8, 8, 10, 0]), rng.choice([8, 8, 5]), rng.choice([4, 8, 2])]
                                        for _ in range(rng.choice([2, 3]))]
    return out


SINK_COLS_CODE = [("id", "1"), ("msink", "m"), ("x", "l"), ("y", "l"), ("z", "l"), ("vx", "l t**-1"), ("vy", "l t**-1"), ("vz", "l t**-1"),
                  ("rot_period", "t"), ("lx", "m l**2 t**-1"), ("acc_rate", "m t**-1"), ("rho", "m l**-3"), ("level", "1")]
SINK_COLS_LEGACY = [("id", "[1]"), ("msink", "[M_sun]"), ("x", "[cm]"), ("y", "[cm]"), ("z", "[cm]"), ("vx", "[cm/s]"), ("vy", "[cm/s]"),
                    ("vz", "[cm/s]"), ("age", "[yr]"), ("temp", "[K]"),
                    # physical units spelled with the letters that mean code mass / length / time in the other dialect
                    ("rsink", "[m]"), ("mgas", "[t]"), ("vol", "[l]"), ("area", "[m**2]"), ("jsink", "[m**2 s**-1]")]


def gen_sink(rng, ndim):
    pool = SINK_COLS_CODE if rng.random() < 0.6 else SINK_COLS_LEGACY
    drop = {"z", "vz"} if ndim < 3 else set()
    if ndim < 2:
        drop |= {"y", "vy"}
    if ndim == 2 and rng.random() < 0.3:
        drop = set()  # the sink table of a 2-D run may still carry z and vz (they stay scalar members)
    cols = [c for c in pool if c[0] not in drop and (c[0] in ("id", "msink") or rng.random() < 0.75)]
    return {"nsink": rng.choice([1, 1, 2, 3, 6]), "columns": [list(c) for c in cols], "empty": rng.random() < 0.1}


# --------------------------------------------------------------------------


class Disk:
    """One world written to a fresh tmpfs directory; removed on exit."""

    def __init__(self, params):
        self.params = params
        self.world = World(params)
        self.dir = None

    def __enter__(self):
        self.dir = core.scratch_dir()
        self.world.write(self.dir)
        return self

    def __exit__(self, *exc):
        shutil.rmtree(self.dir, ignore_errors=True)
        return False

    def dataset(self, nout=None, seam=None):
        import osyris

        n = self.params["nout"] if nout is None else nout
        with (seam or contextlib.nullcontext()):
            with contextlib.redirect_stdout(io.StringIO()):
                return osyris.RamsesDataset(n, path=self.dir)

    def load(self, ds=None, seam=None, nout=None, **kw):
        """Returns (dataset, stdout text).  Exceptions propagate."""
        buf = io.StringIO()
        with (seam or contextlib.nullcontext()):
            with contextlib.redirect_stdout(buf):
                if ds is None:
                    import osyris

                    n = self.params["nout"] if nout is None else nout
                    ds = osyris.RamsesDataset(n, path=self.dir)
                with np.errstate(all="ignore"):
                    ds.load(**kw)
        return ds, buf.getvalue()


# --------------------------------------------------------------------------
# expected structure of the mesh group


def merge_names(names, ndim):
    """Independent implementation of the stated naming rule: components are merged into a
    vector iff all ndim components are present; returns {out_key: [raw names]}."""
    comps = "xyz"[:ndim]
    out = {}
    used = set()
    if ndim > 1:
        for nm in names:
            for i, ch in enumerate(nm):
                if ch != "x":
                    continue
                fam = [nm[:i] + c + nm[i + 1:] for c in comps]
                if all(f in names for f in fam):
                    cut = i - 1 if i > 0 and nm[i - 1] == "_" else i
                    raw = nm[:cut] + nm[i + 1:]
                    if raw == "":
                        raw = "position"
                    out[raw] = fam
                    used.update(fam)
    for nm in names:
        if nm not in used:
            out[nm] = [nm]
    return out


def expected_mesh_keys(world, raw_names=None):
    """{key: [raw names]} of a full mesh load (before derived variables)."""
    ndim = world.ndim
    raw = ["level", "cpu", "dx"] + ["position_" + c for c in "xyz"[:ndim]] + world.hydro_vars + world.grav_vars + world.rt_vars
    if raw_names is not None:
        raw = [r for r in raw if r in raw_names]
    return merge_names(raw, ndim)


def components(obj):
    import osyris

    if isinstance(obj, osyris.Vector):
        return core.vcomps(obj)
    return [obj]


class MeshView:
    """Loaded mesh group in canonical form."""

    def __init__(self, ds, world):
        self.ok = True
        self.problems = []
        self.world = world
        mesh = ds["mesh"]
        self.mesh = mesh
        self.n = len(mesh["level"]) if "level" in mesh else None
        lf = code_factor("length", world.unit_d, world.unit_l, world.unit_t)
        self.level = np.asarray(mesh["level"].values).astype(int)
        pos = mesh["position"] if world.ndim > 1 else mesh["position_x"]
        pc = components(pos)
        if len(pc) != world.ndim:
            self.problems.append(("geometry", "position-components", {"got": len(pc), "want": world.ndim}))
            self.ok = False
            return
        P = np.stack([physical(c.values, c.unit, "length") for c in pc], axis=1) / (lf * world.boxlen)
        n2 = 2.0 ** self.level
        f = P * n2[:, None] - 0.5
        self.cidx = np.round(f).astype(int)
        # in units of the cell size; a position is a float64 product (a few ulps relative), i.e. 2**level times that in cell units
        excess = np.abs(f - self.cidx) - 64 * np.finfo(float).eps * n2[:, None]
        self.pos_err = max(0.0, float(excess.max())) if len(f) else 0.0
        self.keys = [(int(l),) + tuple(int(v) for v in c) for l, c in zip(self.level, self.cidx)]


def compare_full(ds, world, lmax=None, expect_rows=None, raw_names=None, derived=True, stats=None):
    """All clauses of C01 for a loaded dataset.  Returns list of (class, clause, detail)."""
    import osyris
    from pint.errors import DimensionalityError

    out = []
    if "mesh" not in ds:
        return [("structure", "no-mesh-group", {"groups": list(ds.keys())})]
    mesh = ds["mesh"]
    want_keys = expected_mesh_keys(world, raw_names)
    for k in ("level", "dx"):
        if k not in mesh:
            return [("structure", "missing-key", {"key": k, "keys": list(mesh.keys())})]
    mv = MeshView(ds, world)
    if not mv.ok:
        return [(c, cl, d) for c, cl, d in mv.problems]
    if mv.pos_err > 1e-9:
        out.append(("geometry", "position-not-a-cell-centre", {"max_err": float(mv.pos_err)}))
        return out
    exp = expect_rows if expect_rows is not None else world.leaves(lmax)
    ekeys = {(c["level"],) + tuple(c["cidx"]): c for c in exp}
    seen = {}
    for i, k in enumerate(mv.keys):
        seen.setdefault(k, []).append(i)
    dup = [k for k, v in seen.items() if len(v) > 1]
    missing = [k for k in ekeys if k not in seen]
    extra = [k for k in seen if k not in ekeys]
    if dup:
        out.append(("rows", "duplicated", {"n": len(dup), "first": list(dup[0])}))
    if missing:
        out.append(("rows", "missing", {"n": len(missing), "first": list(sorted(missing)[0]), "rows": len(mv.keys), "expected": len(ekeys)}))
    if extra:
        out.append(("rows", "extra", {"n": len(extra), "first": list(sorted(extra)[0])}))
    if out:
        return out
    order = [ekeys[k] for k in mv.keys]
    n = len(order)
    # ---- keys present
    have = set(mesh.keys())
    for k in want_keys:
        if k not in have:
            out.append(("structure", "missing-key", {"key": k, "keys": sorted(have)}))
    derived_keys = set()
    if derived:
        if "density" in want_keys and "dx" in want_keys:
            derived_keys.add("mass")
        if "B_left" in want_keys and "B_right" in want_keys:
            derived_keys.add("B_field")
    for k in sorted(derived_keys):
        if k not in have:
            out.append(("structure", "missing-derived", {"key": k}))
    # keys that correspond to stored variables which were not asked for (projection loads) are errors;
    # any other extra key (e.g. a further derived variable of a user configuration) is not the property's business
    all_stored = expected_mesh_keys(world, None)
    stored_names = set(all_stored) | {r for fam in all_stored.values() for r in fam}
    for k in sorted(have):
        if k not in want_keys and k not in derived_keys and k in stored_names:
            out.append(("structure", "unexpected-key", {"key": k}))
    if out:
        return out
    ud, ul, ut = world.unit_d, world.unit_l, world.unit_t

    def close(a, b, rtol=1e-11):
        return np.allclose(a, b, rtol=rtol, atol=0.0)

    # ---- geometry, level, owner
    dx_want = np.array([c["dx"] for c in order]) * code_factor("length", ud, ul, ut)
    try:
        dx_obs = physical(mesh["dx"].values, mesh["dx"].unit, "length")
    except DimensionalityError:
        return [("unit-label", "dx", {"unit": str(mesh["dx"].unit)})]
    if not close(dx_obs, dx_want):
        out.append(("geometry", "dx", {"first_bad": int(np.argmax(~np.isclose(dx_obs, dx_want, rtol=1e-11, atol=0)))}))
    if "cpu" in mesh:
        cpu_obs = np.asarray(mesh["cpu"].values).astype(int)
        cpu_want = np.array([c["cpu"] for c in order])
        if not np.array_equal(cpu_obs, cpu_want):
            i = int(np.argmax(cpu_obs != cpu_want))
            out.append(("values", "owner-cpu", {"row": list(mv.keys[i]), "got": int(cpu_obs[i]), "want": int(cpu_want[i])}))
    # ---- stored variables
    var_kind = {}
    for kind, names in (("hydro", world.hydro_vars), ("grav", world.grav_vars), ("rt", world.rt_vars)):
        for iv, nm in enumerate(names):
            var_kind[nm] = (kind, iv)
    gids = np.array([world.gid(c["level"], c["cidx"]) for c in order], dtype=float)
    from .ramses import KIND_IV0

    for key, raws in want_keys.items():
        if key in ("level", "cpu", "dx") or raws[0].startswith("position"):
            continue
        obj = mesh[key]
        comps = components(obj)
        is_vec = isinstance(obj, osyris.Vector)
        if (len(raws) > 1) != is_vec or len(comps) != len(raws):
            out.append(("structure", "vector-assembly", {"key": key, "is_vector": is_vec, "raw": raws}))
            continue
        for comp, raw in zip(comps, raws):
            kind, iv = var_kind[raw]
            fam = family_of(raw)
            code = ((KIND_IV0[kind] + iv + 1) * VALBASE + gids) * np.array([value_sign(raw, int(g)) for g in gids])
            want = code * code_factor(fam, ud, ul, ut)
            try:
                obs = physical(comp.values, comp.unit, fam)
            except DimensionalityError:
                out.append(("unit-label", "variable", {"key": raw, "unit": str(comp.unit), "family": fam}))
                continue
            if obs.shape != want.shape:
                out.append(("values", "shape", {"key": raw, "shape": list(obs.shape), "rows": n}))
                continue
            bad = ~np.isclose(obs, want, rtol=1e-11, atol=0.0)
            if np.any(bad):
                i = int(np.argmax(bad))
                rcode = obs[i] / code_factor(fam, ud, ul, ut)
                frac = rcode - math.floor(rcode)
                if abs(frac - GHOST_TAG) < 1e-6:
                    cls = ("values", "ghost-copy")
                elif abs(frac - BOUND_TAG) < 1e-6:
                    cls = ("values", "boundary-copy")
                elif abs(rcode - round(rcode)) < 1e-6 and abs(want[i] / obs[i] - 1) > 1e-6:
                    cls = ("values", "wrong-cell-or-variable")
                else:
                    cls = ("values", "scaling")
                out.append((cls[0], cls[1], {"key": raw, "row": list(mv.keys[i]), "got_code": float(rcode), "want_code": float(code[i]),
                                             "ratio": float(obs[i] / want[i]) if want[i] else None}))
    # ---- derived variables
    if "mass" in derived_keys and "mass" in have and "density" in mesh:
        kind, iv = var_kind["density"]
        rho = ((KIND_IV0[kind] + iv + 1) * VALBASE + gids) * code_factor("density", ud, ul, ut)
        want = rho * dx_want ** world.ndim if False else rho * dx_want ** 3
        try:
            obs = physical(mesh["mass"].values, mesh["mass"].unit, "mass")
            if not close(obs, want, 1e-10):
                out.append(("values", "derived-mass", {"got": float(obs[0]), "want": float(want[0])}))
        except DimensionalityError:
            out.append(("unit-label", "derived-mass", {"unit": str(mesh["mass"].unit)}))
    if "B_field" in derived_keys and "B_field" in have:
        bl, br, bf = components(mesh["B_left"]), components(mesh["B_right"]), components(mesh["B_field"])
        try:
            for a, b, c in zip(bl, br, bf):
                want = 0.5 * (physical(a.values, a.unit, "B") + physical(b.values, b.unit, "B"))
                obs = physical(c.values, c.unit, "B")
                if not close(obs, want, 1e-10):
                    out.append(("values", "derived-B_field", {"got": float(obs[0]), "want": float(want[0])}))
                    break
        except DimensionalityError:
            out.append(("unit-label", "derived-B_field", {}))
    return out
