#!/venv/bin/python
"""Evaluate one round of seeded changes: for every /tmp/<prefix>-<Cxx>/SEED run tools/try_seed.py (scratch mode), archive to
/verif/seeded/<Cxx><suffix>/ with meta.json completed, remove the agent's worktree.
usage: tools/eval_round.py <prefix> <suffix> [Cxx ...]"""
import json
import os
import shutil
import subprocess
import sys

VERIF = os.path.dirname(os.path.dirname(os.path.abspath(__file__)))
ALL = "C01 C03 C04 C05 C06 C11 C12 C13 C14 C15 C17 C19 C20".split()


def main():
    prefix, suffix = sys.argv[1], sys.argv[2]
    props = sys.argv[3:] or ALL
    for p in props:
        wt = f"/tmp/{prefix}-{p}"
        sd = os.path.join(wt, "SEED")
        if not os.path.exists(os.path.join(sd, "patch.diff")):
            print(f"{p}: no SEED/patch.diff in {wt}")
            continue
        env = dict(os.environ, TRY_SEED_SCRATCH="1")
        q = subprocess.run([sys.executable, os.path.join(VERIF, "tools", "try_seed.py"), sd, p], capture_output=True, text=True, env=env)
        try:
            c = json.loads(q.stdout)
        except Exception:
            print(f"{p}: try_seed failed: {q.stdout[-300:]} {q.stderr[-300:]}")
            continue
        ok = c["demo_without_change"]["exit"] == 0 and c.get("patch_applies") and c.get("tests_with_change", {}).get("exit") == 0 and c.get("demo_with_change", {}).get("exit") not in (0, None)
        chk = c.get("checks", {}).get(p, {})
        status = {1: "caught", 0: "MISSED"}.get(chk.get("exit"), f"exit {chk.get('exit')}")
        print(f"{p}: confirmed={ok} demo {c['demo_without_change']['exit']}->{c.get('demo_with_change', {}).get('exit')} tests={c.get('tests_with_change', {}).get('tail')} check={status} {(chk.get('lines') or ['', ''])[1][:160] if len(chk.get('lines') or []) > 1 else ''}", flush=True)
        if not ok:
            print(f"   NOT KEPT (not confirmed): {json.dumps(c)[:400]}")
        else:
            dst = os.path.join(VERIF, "seeded", p + suffix)
            os.makedirs(dst, exist_ok=True)
            for f in ("patch.diff", "demo.py", "meta.json"):
                shutil.copy(os.path.join(sd, f), os.path.join(dst, f))
            try:
                m = json.load(open(os.path.join(dst, "meta.json")))
            except Exception:
                m = {}
            m["breaks_property"] = p
            m["confirmed"] = {"demo_without_change_exit": c["demo_without_change"]["exit"], "tests_with_change": c["tests_with_change"]["tail"],
                              "demo_with_change_exit": c["demo_with_change"]["exit"], "how": "tools/try_seed.py (TRY_SEED_SCRATCH=1: fresh scratch worktrees of /repo HEAD)"}
            m["first_check_result"] = {k: {"exit": v["exit"], "lines": v["lines"][:2]} for k, v in c.get("checks", {}).items()}
            json.dump(m, open(os.path.join(dst, "meta.json"), "w"), indent=1)
            json.dump(c, open(os.path.join(dst, "confirmation.json"), "w"), indent=1)
        subprocess.run(["git", "-C", "/repo", "worktree", "remove", "--force", wt], capture_output=True)
    subprocess.run(["git", "-C", "/repo", "worktree", "prune"], capture_output=True)


if __name__ == "__main__":
    main()
