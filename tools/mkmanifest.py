#!/venv/bin/python
"""Regenerates /verif/MANIFEST.json from the table below (kept in one place so
that the manifest stays valid and current while checks are added)."""
import json
import os
import sys

VERIF = os.path.dirname(os.path.dirname(os.path.abspath(__file__)))

NA_PURE = {
    "C02": "Array arithmetic is a pure, stateless, single-threaded function of its in-memory operands: no schedule, clock, I/O, fault or history exists for a simulator to control; only input generation would remain, which is not this technique.",
    "C07": "Comparisons/logical operators are pure functions of two in-memory operands; nothing to schedule, delay, drop or crash.",
    "C08": "Unit conversion and unit definitions are pure functions of values and the unit registry; the one environmental dependency (the ~/.osyris config copy) is not what the property is about and is neutralised by the fresh-HOME rule of every check.",
    "C09": "Vector operations are pure component-wise functions of their operands; no concurrency, I/O, time or history involved.",
    "C10": "numpy dispatch on Arrays is a pure function of (function, operands); 'programs' here are single calls without state.",
    "C16": "Sub-domain extraction is a pure function of (dataset, region); no concurrency, I/O, faults or history for a simulator to own.",
    "C18": "The orientation basis is pure geometry of one input vector / data set; nothing to simulate (C03's oracle re-checks orthonormality of the basis it uses only as a precondition of its own judgement).",
}

CHECKS = {
    "C05": {
        "engine": "K",
        "technique": "deterministic simulation: kernel source under a seeded baton scheduler (thread count, partition, every load/store interleaving) + sequential reference histogram",
        "text": "Seeded search over workloads x simulated schedules of the hist2d kernel's real source driven through the real histogram2d front-end; every run compared with an independent sequential reference histogram (exactly-once, conservation, masks, sums/means, explicit/automatic range) and with its own T=1 execution (schedule independence). Sampling, not proof.",
        "note": "Trusted: CPython executing the kernel source with numba int() semantics stands for the compiled kernel (anchored: compiled T=1 == simulated T=1 bit for bit on a sample each batch); SC interleavings only; numpy; the reference histogram in checks/c05.py.",
        "design_ref": "DESIGN.md 2.2, 3 (C05)",
    },
}

CHECKS["C20"] = {
    "engine": "H",
    "technique": "deterministic simulation: seeded operation/fault histories of holders sharing objects vs. a dict reference model, ddmin-minimised replay",
    "text": "Seeded search over histories (4..40 dict operations on 3 Datagroups + 2 Datasets sharing member objects, rejected operations injected as faults) checked step by step against a Python-dict model with shape gate, type gate, renaming, parent link, meta; == checked against an independent content comparison with its own unit-factor table. Sampling, not proof.",
    "note": "Trusted: CPython dict as the reference; independent unit-factor table (exact factors only); numpy.",
    "design_ref": "DESIGN.md 2.4, 3 (C20)",
}

CHECKS["C06"] = {
    "engine": "H",
    "technique": "deterministic simulation: seeded operation/fault histories on groups sharing member objects vs. numpy row-tuple model, ddmin-minimised replay",
    "text": "Seeded search over histories (insert/replace/update/delete/pop/share/copy/index/sortby, mis-shaped insertions injected as faults; ints, negative ints, stepped/empty slices, boolean masks and integer arrays as ndarray/Array/list, permutations) on two Datagroup slots; every value is a unique (member,row) stamp and after every step every member of every group must equal the numpy-indexed model, with one shape per group, units and names preserved. Sampling, not proof.",
    "note": "Trusted: numpy indexing as the reference selection semantics; stamps are exactly representable in all four dtypes.",
    "design_ref": "DESIGN.md 2.4, 3 (C06)",
}

CHECKS["C17"] = {
    "engine": "H",
    "technique": "deterministic simulation: seeded interleavings of in-place/slice/copy/deepcopy/re-insertion by holders sharing buffers vs. an object-graph reference model, rejected updates as faults, ddmin-minimised replay",
    "text": "Seeded search over histories in which 2-3 holders interleave the four in-place operators (rhs: fresh/live Array, Vector, number, ndarray, Quantity; same/compatible/incompatible units; f8/f4/i8/i4), slicing, copy/copy.copy/copy.deepcopy of Array/Vector/Datagroup/Dataset and re-insertion into several containers. After every step every live object is compared with a model graph (buffers, views as index sets, own unit algebra): values through views, unit, dtype, object identity, container membership, np.shares_memory for every pair; x op= y also against x op y on deep copies. Sampling, not proof.",
    "note": "Trusted: numpy arithmetic on float64 as reference arithmetic; the check's own unit table (scale to CGS + dimension exponents) compared with pint's base-unit reduction; np.shares_memory.",
    "design_ref": "DESIGN.md 2.4, 3 (C17)",
}

CHECKS["C01"] = {
    "engine": "W",
    "technique": "deterministic simulation of the two-party world (stub RAMSES ranks write, real loader reads) with seeded, fault-free search over world states; ground-truth octree as reference model",
    "text": "Exploration, fault-free world search: a seeded octree with a domain decomposition is dumped by stub ranks (own implementation of the RAMSES record format, ghost octs tagged, boundary octs negative, unique value per (cell, variable)) and loaded by the real osyris.io through the file-system seam (shuffled directory listing, open trace). The loaded mesh must equal the leaf set exactly (missing / duplicated / extra / ghost-sourced rows are separate classes) with geometry, level, owner, every variable times an independent unit-factor table, unit labels, vector assembly, derived mass and B_field, ncells, time, nout=-1 resolution. No schedule or fault is involved in this property; sampling, not proof.",
    "note": "Trusted: the author's knowledge of the RAMSES output format (writer shares no code with the readers; its acceptance by the unchanged loader is empirical support, not proof); independent unit-factor table; pint only for converting the returned label to a canonical CGS unit.",
    "design_ref": "DESIGN.md 2.3, 3 (C01)",
}

CHECKS["C13"] = {
    "engine": "W",
    "technique": "deterministic simulation of the two-party world (stub ranks write, real loader reads), seeded fault-free search over worlds x selections x optional-file presence; differential (full vs selective fresh loads) + ground-truth model + independent naming rule",
    "text": "Exploration, fault-free world search + file-presence configurations: each world (mesh with hydro/grav/rt, particles, sinks) is loaded by two fresh datasets, fully and with a seeded group/variable selection (group lists, groups switched off/on, per-group variable lists incl. component subsets); every requested variable must equal the full load's array element for element, nothing excluded may be present, the key set must follow an independent implementation of the merge rule, and when geometry is present the selective result is also compared with the ground-truth tree. Worlds with an optional file removed must equal worlds that never had it. No schedule or fault is involved; sampling, not proof.",
    "note": "Trusted: as C01 (writer, unit table); the full load serves as the reference for element-wise equality and is itself checked against the model by C01.",
    "design_ref": "DESIGN.md 2.3, 3 (C13)",
}
CHECKS["C14"] = {
    "engine": "W",
    "technique": "deterministic simulation of the two-party world (stub ranks write particle files and sink CSV, real loader reads), seeded fault-free search over populations, descriptors, dialects and file presence; ground truth as reference model",
    "text": "Exploration, fault-free world search + file-presence configurations: stub ranks write particle files (0..30 particles per rank incl. empty ranks, d/i/b columns in any order, header records of varying length, ndim 1-3) and a sink CSV (1..6 sinks, arbitrary columns, code-unit or legacy-bracket unit line, empty or absent). The loaded tables must equal the concatenation over ranks of the stored values times an independent unit table, typed, row-aligned (unique ids), vector-assembled by the naming rule, sorted by the requested key, with nparticles matching. No schedule or fault is involved; sampling, not proof.",
    "note": "Trusted: the author's knowledge of backup_part and of the sink CSV dialects; independent parser of the code-unit expressions (m, l, t exponents).",
    "design_ref": "DESIGN.md 2.3, 3 (C14)",
}

CHECKS["C12"] = {
    "engine": "W",
    "technique": "deterministic simulation of the two-party world (stub ranks write, real loader reads), seeded fault-free search over worlds x level/value/position predicates; truncated ground-truth tree as reference model",
    "text": "Exploration, fault-free world search: every cell of the stub-written tree (leaf and refined) stores a unique value; the real loader reads with a level predicate (<=, <, interval, ==, !=), alone or ANDed with value/position predicates and with other groups present. The rows must be exactly the cells of the model tree truncated at the highest accepted level L that satisfy the predicates, carrying the stored coarse values; meta['lmax'] = L; when all levels up to L are accepted the rows tile the box exactly once. No schedule or fault is involved; sampling, not proof.",
    "note": "Trusted: as C01 (writer, unit table).",
    "design_ref": "DESIGN.md 2.3, 3 (C12)",
}

CHECKS["C04"] = {
    "engine": "W",
    "technique": "deterministic simulation of the two-party world (stub ranks with an adversarial domain decomposition write, real loader reads), seeded fault-free search over worlds x selections; differential (selective vs full load) + ground-truth filter",
    "text": "Exploration, fault-free world search: worlds with 3-D Hilbert (frozen, validated curve; up to 16 ranks; random, tiny and clustered key ranges), 1-D Hilbert or non-Hilbert decompositions are loaded fully and with 1-3 selections each (interval predicates on axis subsets incl. compact boxes from a fraction of the finest cell upward, boxes centred on coarse leaves, boxes touching the domain edges; value predicates; explicit cpu_list). The selective load must equal the model's filter of the leaf set and, exactly and in every variable, the corresponding rows of the unselected load. Files opened are recorded (probe: pre-selection excluded a rank). No schedule or fault is involved; sampling, not proof.",
    "note": "Trusted: as C01, plus the oct-ownership rule (owner = rank of the father cell's centre key) and the frozen Hilbert state diagram (validated: bijective, unit steps, prefix property). 2-D Hilbert worlds are not generated.",
    "design_ref": "DESIGN.md 2.3, 3 (C04)",
}

CHECKS["C15"] = {
    "engine": "H+W",
    "technique": "deterministic simulation: seeded histories of load() calls on one long-lived dataset over a stub-written world, with injected interrupts (k-th file open raises KeyboardInterrupt/EIO, predicate raises at its k-th evaluation); differential oracle against a fresh dataset per call; ddmin-minimised replay",
    "text": "Seeded search over histories of 2..8 load() calls (full, group lists, groups off, variable lists, value/position/level predicates triggering CPU pre-selection and level caps, cpu_list, sortby) on one RamsesDataset; in the fault batch calls are interrupted at a drawn file open or predicate evaluation and the history continues on the same object. After each successful call every group it produced must equal (keys, values, units, exactly) the result of a fresh dataset with the same arguments, earlier groups must be bit-identical to their snapshot, ncells/nparticles must match; an interrupted call must change no group. Fault-free and fault batches are counted separately. Sampling, not proof.",
    "note": "Trusted: a fresh RamsesDataset as the reference for each call (itself checked against the ground truth by C01/C04/C12/C13/C14); the stub writer.",
    "design_ref": "DESIGN.md 2.3, 2.4, 3 (C15)",
}

CHECKS["C03"] = {
    "engine": "K",
    "technique": "deterministic simulation: evaluate_on_grid source under a seeded baton scheduler (thread count, partition, every store interleaving) driven through the real map() front-end + independent point-location oracle",
    "text": "Seeded search over in-memory AMR tilings (2-D/3-D, 1-4 levels, holes) x origins x orientations (letters, triples, arbitrary/z=0/near-axis normals) x windows (1/50 of the smallest cell to 3x the domain, other units, dy != dx, or omitted) x resolutions x 1-3 layers (scalar, vector norm, vec/stream mode) x simulated schedules of the kernel. Every returned pixel centre is located independently in the original axes: exactly one containing cell -> unmasked and equal (vector layers: projections on u, v and in-plane magnitude); no cell -> masked; face band -> masked or any touching cell, component by component. The basis used is re-checked orthonormal with n parallel to the request. T=1 and scheduled runs must agree. Sampling, not proof.",
    "note": "Trusted: CPython executing the kernel source stands for the compiled kernel (anchored: compiled T=1 == simulated T=1 bit for bit on a sample each batch); SC interleavings only; the check's own point location.",
    "design_ref": "DESIGN.md 2.2, 3 (C03)",
}

CHECKS["C11"] = {
    "engine": "K",
    "technique": "deterministic simulation: evaluate_on_grid source (3-D output buffer) under a seeded baton scheduler driven through the real map(dz=, operation=) front-end + independent column-sampling oracle",
    "text": "Seeded search over 3-D AMR tilings x origins x orientations x windows (given or automatic) x slab thickness (one pixel to the domain, incl. slabs much thinner than the cells they cut) x (x, y, z) resolutions x the eight reductions x simulated kernel schedules. Every pixel column is sampled independently at the evenly spaced depths (count observed at the kernel seam and required to be an admissible choice), each sample located as in C03, reduced with numpy, times the depth step and unit x length for sum/nansum; columns with a sample in the face band are counted and skipped. T=1 and scheduled runs must agree. Sampling, not proof.",
    "note": "Trusted: as C03; numpy's reductions as the meaning of the eight operations; 2-D meshes are excluded (no extent along the normal).",
    "design_ref": "DESIGN.md 2.2, 3 (C11)",
}

CHECKS["C19"] = {
    "engine": "H+K",
    "technique": "deterministic simulation: seeded histories of plotting calls sharing argument objects, kernels under the baton scheduler with a schedule per call, failing calls as faults; snapshot, repeat-call and reference-call (effective options) oracles; ddmin-minimised replay",
    "text": "Seeded search over histories of 2..6 calls to map / histogram2d / histogram1d / scatter / plot that share one mesh Datagroup, three Layers with fixed layer-level options, one resolution dict, origin, limits, bins and weights, with every option (mode, norm, vmin, vmax, operation, an extra keyword, bins, weights) set at neither / call / layer / both levels with distinct values. After every call (also when it raises) a deep structural snapshot of every argument must be unchanged; a repeated identical call must return the same data; every layer must equal the corresponding layer of a reference call made with fresh option-less layers and the effective options at call level, and its mode/norm/vmin/vmax/extra option must be the effective one. Sampling, not proof.",
    "note": "Trusted: matplotlib (Agg) for the rendering steps; the reference call shares the implementation but not the option-merging path under test; kernels as in C03/C05.",
    "design_ref": "DESIGN.md 2.4, 3 (C19)",
}

PENDING_REASON = "check not built yet in this snapshot of /verif (planned and applicable, see DESIGN.md section 3); not claimed until its check exists"
ALL = ["C%02d" % i for i in range(1, 21)]


def main():
    man = {
        "version": 1,
        "setup_cmd": "cd /verif && /venv/bin/python -m compileall -q sim checks selftest tools >/dev/null && /venv/bin/python ./check selftest-setup",
        "hooks": {
            "guard": "OSYRIS_VERIF",
            "enable": "no hooks are needed: all seams are module attributes (osyris.plot.map.evaluate_on_grid, osyris.plot.histogram2d.hist2d, osyris.io.*.open/glob), the HOME environment variable and the public API; checks import osyris from $OSYRIS_SRC (default /repo/src) with a fresh HOME",
            "baseline_off_cmd": "cd /repo && /venv/bin/python -m pytest -ra -q -p no:cacheprovider --timeout=900 --continue-on-collection-errors",
            "source_commits": [],
            "add_only": True,
        },
        "engines": [
            {"name": "K", "path": "sim/parsim.py", "serves_properties": ["C03", "C05", "C11", "C19"],
             "kind_free_text": "simulated numba parallel runtime: kernel source outlined at prange, baton-passing worker threads, seeded schedulers, SC element-level memory events"},
            {"name": "W", "path": "sim/ramses.py", "serves_properties": ["C01", "C04", "C12", "C13", "C14", "C15"],
             "kind_free_text": "simulated RAMSES cluster (writer stub + ground-truth octree) writing to tmpfs, open/glob seam with trace and fault injection"},
            {"name": "H", "path": "sim/core.py", "serves_properties": ["C06", "C15", "C17", "C19", "C20"],
             "kind_free_text": "history machines: seeded operation/fault sequences of simulated holders against small executable reference models, ddmin shrinking"},
        ],
        "checks": [],
        "not_applicable": [],
        "notes": "All checks: exit 0 held / exit 1 VIOLATION line(s) / exit 2 harness error. Known findings: /verif/KNOWN_FINDINGS.txt. Replay: ./check <id> --replay <file>.",
    }
    for pid in ALL:
        if pid in CHECKS:
            c = CHECKS[pid]
            man["checks"].append({
                "property_id": pid,
                "quick_cmd": f"cd /verif && ./check {pid} --tier quick",
                "thorough_cmd": f"cd /verif && ./check {pid} --tier thorough",
                "evidence_file": f"/verif/evidence/{pid}.json",
                "replay_cmd_template": f"cd /verif && ./check {pid} --replay {{path}}",
                "engine": c["engine"],
                "level_claimed": {"category": "exploration", "text": c["text"], "design_ref": c["design_ref"]},
                "level_note": c["note"],
                "technique": c["technique"],
            })
        elif pid in NA_PURE:
            man["not_applicable"].append({"property_id": pid, "reason": NA_PURE[pid]})
        else:
            man["not_applicable"].append({"property_id": pid, "reason": PENDING_REASON})
    with open(os.path.join(VERIF, "MANIFEST.json"), "w") as f:
        json.dump(man, f, indent=1)
        f.write("\n")
    try:
        import jsonschema

        jsonschema.validate(man, json.load(open("/root/.vp/MANIFEST.schema.json")))
        print("MANIFEST.json valid;", len(man["checks"]), "checks,", len(man["not_applicable"]), "not applicable")
    except ImportError:
        print("MANIFEST.json written (jsonschema not available here)")


if __name__ == "__main__":
    main()
