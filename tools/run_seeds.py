#!/venv/bin/python
"""Re-run the property's quick check against every kept seeded change (scratch worktree + OSYRIS_SRC; /repo untouched).
usage: tools/run_seeds.py [seed dir names ...]   -> table + seeded/RESULTS.json"""
import json
import os
import shutil
import subprocess
import sys
import tempfile

VERIF = os.path.dirname(os.path.dirname(os.path.abspath(__file__)))


def main():
    names = sys.argv[1:] or sorted(d for d in os.listdir(os.path.join(VERIF, "seeded")) if os.path.isdir(os.path.join(VERIF, "seeded", d)))
    res_path = os.path.join(VERIF, "seeded", "RESULTS.json")
    results = json.load(open(res_path)) if os.path.exists(res_path) else {}
    for name in names:
        d = os.path.join(VERIF, "seeded", name)
        meta = json.load(open(os.path.join(d, "meta.json")))
        prop = meta.get("breaks_property") or meta.get("property")
        wt = tempfile.mkdtemp(prefix="seedrun-", dir="/tmp")
        os.rmdir(wt)
        try:
            subprocess.run(["git", "-C", "/repo", "worktree", "add", "-q", "--detach", wt, "HEAD"], check=True)
            p = subprocess.run(["git", "apply", os.path.join(d, "patch.diff")], cwd=wt, capture_output=True, text=True)
            if p.returncode != 0:
                results[name] = {"property": prop, "status": "patch-does-not-apply", "detail": p.stderr[-200:]}
                print(f"{name:12s} {prop} patch does not apply")
                continue
            tmp = tempfile.mkdtemp(prefix="seedev-", dir="/tmp")
            env = dict(os.environ, VERIF_EVIDENCE_DIR=os.path.join(tmp, "ev"), VERIF_REPLAY_DIR=os.path.join(tmp, "rp"), OSYRIS_SRC=os.path.join(wt, "src"))
            q = subprocess.run([os.path.join(VERIF, "check"), prop, "--tier", "quick"], cwd=VERIF, env=env, capture_output=True, text=True)
            lines = [l[:300] for l in q.stdout.splitlines() if l.startswith(("VIOLATION", "  class=", "HARNESS"))]
            status = {0: "MISSED", 1: "caught"}.get(q.returncode, f"harness-error({q.returncode})")
            results[name] = {"property": prop, "status": status, "lines": lines[:2]}
            print(f"{name:12s} {prop} {status}  {lines[1][:140] if len(lines) > 1 else ''}", flush=True)
            shutil.rmtree(tmp, ignore_errors=True)
        finally:
            subprocess.run(["git", "-C", "/repo", "worktree", "remove", "--force", wt], capture_output=True)
            shutil.rmtree(wt, ignore_errors=True)
    json.dump(results, open(res_path, "w"), indent=1, sort_keys=True)


if __name__ == "__main__":
    main()
