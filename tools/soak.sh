#!/bin/bash
# Soak: every check at the given tier under several base seeds; prints one line per (check, seed) and a summary of non-zero exits.
# usage: tools/soak.sh <tier> <first seed> <last seed> [checks...]
cd "$(dirname "$0")/.."
tier=$1; a=$2; b=$3; shift 3
checks=${@:-C01 C03 C04 C05 C06 C11 C12 C13 C14 C15 C17 C19 C20}
export VERIF_EVIDENCE_DIR=$PWD/soak/evidence VERIF_REPLAY_DIR=$PWD/soak/replays
mkdir -p soak
bad=0
for s in $(seq $a $b); do
  for c in $checks; do
    out=$(VERIF_SEED=$s ./check $c --tier $tier 2>&1); rc=$?
    echo "seed=$s $c exit=$rc $(echo "$out" | tail -1)"
    if [ $rc -ne 0 ]; then bad=$((bad+1)); echo "$out" | grep -E "VIOLATION|class=|HARNESS" | head -6; fi
  done
done
echo "SOAK DONE non-zero exits: $bad"
