#!/bin/bash
# every check at the thorough tier (evidence/replays go to a scratch dir unless run from /verif for real)
cd "$(dirname "$0")/.."
checks=${@:-C01 C03 C04 C05 C06 C11 C12 C13 C14 C15 C17 C19 C20}
export VERIF_EVIDENCE_DIR=${VERIF_EVIDENCE_DIR:-$PWD/soak/evidence-thorough} VERIF_REPLAY_DIR=${VERIF_REPLAY_DIR:-$PWD/soak/replays-thorough}
for c in $checks; do
  out=$(./check $c --tier thorough ${JOBS:+--jobs $JOBS} 2>&1); rc=$?
  echo "$c exit=$rc $(echo "$out" | tail -1)"
  if [ $rc -ne 0 ]; then echo "$out" | grep -E "VIOLATION|class=|HARNESS" | head -8; fi
done
echo THOROUGH DONE
