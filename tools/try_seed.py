#!/venv/bin/python
"""Confirm a seeded change and run the checks against it.

  tools/try_seed.py <dir with patch.diff, demo.py, meta.json> <property> [other properties ...]

1. fresh scratch worktree of /repo: demo passes; apply patch; 192 tests pass; demo fails; worktree removed.
2. patch applied to /repo itself: ./check <property> --tier quick (evidence/replays to a temp dir); undone with git checkout.
Prints a JSON summary."""
import json
import os
import shutil
import subprocess
import sys
import tempfile

VERIF = os.path.dirname(os.path.dirname(os.path.abspath(__file__)))


def sh(cmd, cwd=None, env=None, timeout=3600):
    p = subprocess.run(cmd, cwd=cwd, env=env, capture_output=True, text=True, timeout=timeout)
    return p.returncode, p.stdout + p.stderr


def main():
    d = os.path.abspath(sys.argv[1])
    props = sys.argv[2:]
    patch = os.path.join(d, "patch.diff")
    out = {"seed": d, "properties": props}
    wt = tempfile.mkdtemp(prefix="seedchk-", dir="/tmp")
    os.rmdir(wt)
    try:
        rc, o = sh(["git", "-C", "/repo", "worktree", "add", "-q", "--detach", wt, "HEAD"])
        assert rc == 0, o
        env = dict(os.environ, PYTHONPATH=os.path.join(wt, "src"), MPLBACKEND="Agg")

        def demo():
            env["HOME"] = tempfile.mkdtemp(prefix="seedhome-", dir="/tmp")
            try:
                rc, o = sh([sys.executable, os.path.join(d, "demo.py")], cwd=wt, env=env, timeout=1800)
            finally:
                shutil.rmtree(env["HOME"], ignore_errors=True)
            return rc, o[-300:]

        # the demo may refer to its own worktree path: rewrite on the fly
        src = open(os.path.join(d, "demo.py")).read()
        out["demo_mentions_worktree"] = "/tmp/seed-" in src
        if out["demo_mentions_worktree"]:
            import re

            tmpdemo = os.path.join(wt, "_demo.py")
            open(tmpdemo, "w").write(re.sub(r"/tmp/seed-C\d\d", wt, src))

            def demo():  # noqa: F811
                env["HOME"] = tempfile.mkdtemp(prefix="seedhome-", dir="/tmp")
                try:
                    rc, o = sh([sys.executable, tmpdemo], cwd=wt, env=env, timeout=1800)
                finally:
                    shutil.rmtree(env["HOME"], ignore_errors=True)
                return rc, o[-300:]

        rc, o = demo()
        out["demo_without_change"] = {"exit": rc, "tail": o}
        rc, o = sh(["git", "apply", patch], cwd=wt)
        out["patch_applies"] = rc == 0
        if rc != 0:
            out["apply_error"] = o[-300:]
        else:
            env["HOME"] = tempfile.mkdtemp(prefix="seedhome-", dir="/tmp")
            rc, o = sh([sys.executable, "-m", "pytest", "-q", "-p", "no:cacheprovider", "test"], cwd=wt, env=env)
            shutil.rmtree(env["HOME"], ignore_errors=True)
            out["tests_with_change"] = {"exit": rc, "tail": o.strip().splitlines()[-1:]}
            rc, o = demo()
            out["demo_with_change"] = {"exit": rc, "tail": o}
    finally:
        sh(["git", "-C", "/repo", "worktree", "remove", "--force", wt])
        shutil.rmtree(wt, ignore_errors=True)
    if os.environ.get("TRY_SEED_SCRATCH"):
        # do not touch /repo (e.g. while a background soak uses it): checks run against a scratch worktree via OSYRIS_SRC
        wt2 = tempfile.mkdtemp(prefix="seedchk2-", dir="/tmp")
        os.rmdir(wt2)
        try:
            sh(["git", "-C", "/repo", "worktree", "add", "-q", "--detach", wt2, "HEAD"])
            rc, o = sh(["git", "apply", patch], cwd=wt2)
            tmp = tempfile.mkdtemp(prefix="seedev-", dir="/tmp")
            out["checks"] = {}
            out["checks_against"] = "scratch worktree (OSYRIS_SRC)"
            for p in props:
                env = dict(os.environ, VERIF_EVIDENCE_DIR=os.path.join(tmp, "ev"), VERIF_REPLAY_DIR=os.path.join(tmp, "rp"), OSYRIS_SRC=os.path.join(wt2, "src"))
                rc, o = sh([os.path.join(VERIF, "check"), p, "--tier", "quick"], cwd=VERIF, env=env)
                lines = [l[:400] for l in o.splitlines() if l.startswith(("VIOLATION", "  class=", "HARNESS", "KNOWN", f"[{p}] runs"))]
                out["checks"][p] = {"exit": rc, "lines": lines[:6]}
            shutil.rmtree(tmp, ignore_errors=True)
        finally:
            sh(["git", "-C", "/repo", "worktree", "remove", "--force", wt2])
            shutil.rmtree(wt2, ignore_errors=True)
        print(json.dumps(out, indent=1))
        return 0
    # ---- the checks, against /repo itself
    rc, o = sh(["git", "-C", "/repo", "status", "--porcelain", "--untracked-files=no"])
    if o.strip():
        out["error"] = "/repo has uncommitted changes; not applying"
        print(json.dumps(out, indent=1))
        return 2
    rc, o = sh(["git", "-C", "/repo", "apply", patch])
    try:
        if rc != 0:
            out["error"] = "patch does not apply to /repo: " + o[-200:]
        else:
            tmp = tempfile.mkdtemp(prefix="seedev-", dir="/tmp")
            out["checks"] = {}
            for p in props:
                env = dict(os.environ, VERIF_EVIDENCE_DIR=os.path.join(tmp, "ev"), VERIF_REPLAY_DIR=os.path.join(tmp, "rp"))
                rc, o = sh([os.path.join(VERIF, "check"), p, "--tier", "quick"], cwd=VERIF, env=env)
                lines = [l[:400] for l in o.splitlines() if l.startswith(("VIOLATION", "  class=", "HARNESS", "KNOWN", f"[{p}] runs"))]
                out["checks"][p] = {"exit": rc, "lines": lines[:6]}
            shutil.rmtree(tmp, ignore_errors=True)
    finally:
        sh(["git", "-C", "/repo", "checkout", "--", "."])
    print(json.dumps(out, indent=1))
    return 0


if __name__ == "__main__":
    sys.exit(main())
